#!/bin/sh
# offline setup: overlay venv on /venv (repo deps: numpy, lxml, pytest) + z3-solver (+ crosshair-tool) from the wheelhouse
set -e
cd "$(dirname "$0")"
HERE="$(pwd)"
V=/verif/.venv
if [ ! -x $V/bin/python ] || ! $V/bin/python -c 'import z3, numpy, lxml' 2>/dev/null; then
  rm -rf $V
  /venv/bin/python -m venv $V
  SP=$($V/bin/python -c 'import sysconfig; print(sysconfig.get_paths()["purelib"])')
  printf 'import site; site.addsitedir("/venv/lib/python3.12/site-packages")\n' > $SP/_overlay.pth
  PIP_NO_INDEX=1 $V/bin/python -m pip install -q --no-index --find-links /opt/veriftools/wheels z3-solver
  PIP_NO_INDEX=1 $V/bin/python -m pip install -q --no-index --find-links /opt/veriftools/wheels crosshair-tool || echo "crosshair-tool not installed (optional cross-check disabled)"
fi
$V/bin/python -c 'import z3, numpy, lxml; print("setup ok: z3", z3.get_version_string())'
# validate Engine P's encoding against the repository's own suite and against str/re (DESIGN.md section 4)
$V/bin/python lib/selftest.py > $V/selftest.log 2>&1; rc=$?; tail -4 $V/selftest.log; exit $rc
