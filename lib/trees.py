"""Builders of Tree / Token objects with symbolic token attributes, head flags and labels (C07, C08, C15, C18, C19, C20)."""
from engines.pysym.explore import Alpha, TOKEN

# tree shapes: 'L' leaf, ('U', child), ('B', left, right)
SHAPES = {
    1: ['L', ('U', 'L')],
    2: [('B', 'L', 'L'), ('B', ('U', 'L'), 'L'), ('U', ('B', 'L', 'L'))],
    3: [('B', ('B', 'L', 'L'), 'L'), ('B', 'L', ('B', 'L', 'L')), ('B', 'L', ('U', ('B', 'L', 'L')))],
    4: [('B', ('B', 'L', 'L'), ('B', 'L', 'L')), ('B', ('B', ('B', 'L', 'L'), 'L'), 'L'), ('B', 'L', ('B', 'L', ('B', 'L', 'L')))],
}


def shape_name(s):
    if s == 'L':
        return 'L'
    if s[0] == 'U':
        return 'U(%s)' % shape_name(s[1])
    return 'B(%s,%s)' % (shape_name(s[1]), shape_name(s[2]))


def nleaves(s):
    if s == 'L':
        return 1
    if s[0] == 'U':
        return nleaves(s[1])
    return nleaves(s[1]) + nleaves(s[2])


EN_CATS = dict(leaf=['NP', 'N', '(S[dcl]\\NP)/NP', 'NP[nb]/N', 'S[dcl]\\NP', ',', 'conj', '(S\\NP)\\(S\\NP)'], node=['S[dcl]', 'NP', 'S[dcl]\\NP', 'N', 'NP\\NP'])
JA_CATS = dict(leaf=['NP[case=nc,mod=nm,fin=f]', 'NP[case=ga,mod=nm,fin=f]\\NP[case=nc,mod=nm,fin=f]', 'S[mod=nm,form=base,fin=f]\\NP[case=ga,mod=nm,fin=f]', 'S[mod=nm,form=base,fin=t]\\S[mod=nm,form=base,fin=f]'],
               node=['S[mod=nm,form=base,fin=f]', 'NP[case=ga,mod=nm,fin=f]', 'S[mod=nm,form=base,fin=t]', 'NP[case=nc,mod=X1,fin=X2]/NP[case=nc,mod=X1,fin=X2]'])
EN_LABELS = dict(binary=[('fa', '>'), ('ba', '<'), ('fc', '>B'), ('bx', '<B'), ('gfc', '>B'), ('gbx', '<B'), ('conj', '<Φ>'), ('lp', '<lp>'), ('rp', '<rp>'), ('lp', '<*>')],
                 unary=[('lex', '<un>'), ('tr', '<un>')])
JA_LABELS = dict(binary=[('fa', '>'), ('ba', '<'), ('fc', '>B'), ('bx', '<B1'), ('bx', '<B2'), ('bx', '<B3'), ('bx', '<B4'), ('fx', '>Bx1'), ('fx', '>Bx2'), ('fx', '>Bx3'), ('other', 'SSEQ')],
                 unary=[('ADNext', 'ADNext'), ('ADNint', 'ADNint'), ('ADV0', 'ADV0'), ('ADV1', 'ADV1'), ('ADV2', 'ADV2')])


class TreeBuilder:
    """draws a tree of a given shape.
    words[i] / attrs: callables (draw, name) -> str for leaf i; heads: 'sym' | True | False; labels: 'sym' (fork over vocabulary) | index"""

    def __init__(self, d, lang='en', word=None, attrs=None, heads='sym', labels=0, cats=None, prefix='t'):
        self.d, self.lang, self.word, self.attrs, self.heads, self.labels, self.p = d, lang, word, attrs or {}, heads, labels, prefix
        self.cats = cats or (EN_CATS if lang == 'en' else JA_CATS)
        self.voc = EN_LABELS if lang == 'en' else JA_LABELS
        self.leaf = 0
        self.node = 0
        self.tokens = []

    def build(self, shape):
        from depccg.cat import Category
        from depccg.tree import Tree
        from depccg.types import Token
        d = self.d
        if shape == 'L':
            i = self.leaf
            self.leaf += 1
            cat = Category.parse(self.cats['leaf'][i % len(self.cats['leaf'])])
            kw = {}
            if self.lang == 'en':
                kw = dict(word='w%d' % i, lemma='l%d' % i, pos='P%d' % i, entity='O', chunk='I')
            else:
                kw = dict(word='w%d' % i, surf='w%d' % i, base='b%d' % i, pos='名詞', pos1='一般', pos2='*', pos3='*', inflectionForm='*', inflectionType='*', reading='r')
            if self.word is not None:
                kw['word'] = self.word(d, '%s.w%d' % (self.p, i), i)
                if self.lang == 'ja':
                    kw['surf'] = kw['word']
            for k, f in self.attrs.items():
                kw[k] = f(d, '%s.%s%d' % (self.p, k, i), i)
            tok = Token(**kw)
            self.tokens.append(tok)
            return Tree.make_terminal(tok, cat)
        j = self.node
        self.node += 1
        cat = Category.parse(self.cats['node'][j % len(self.cats['node'])])
        if shape[0] == 'U':
            child = self.build(shape[1])
            lab = self._label('unary', j)
            return Tree.make_unary(cat, child, lab[0], lab[1])
        l = self.build(shape[1])
        r = self.build(shape[2])
        lab = self._label('binary', j)
        if self.heads == 'sym':
            h = d.boolean('%s.head%d' % (self.p, j))
        else:
            h = self.heads
        return Tree.make_binary(cat, l, r, lab[0], lab[1], h)

    def _label(self, kind, j):
        v = self.voc[kind]
        if self.labels == 'sym':
            return v[self.d.choice('%s.lab%d' % (self.p, j), len(v))]
        return v[(self.labels + j) % len(v)]


def freeze(ts):
    """remember the derivations as they are now; the returned function puts every node attribute and token back (an oracle that
    compares printed output with 'the derivation' must mean the derivation handed to the printer, whatever the printer did to it)"""
    saved = []
    for t in ts:
        for nd in walk(t):
            kids = list(nd.children)
            tok = (kids[0], list(kids[0].items())) if nd.is_leaf else None
            saved.append((nd, nd.cat, kids, nd.op_string, nd.op_symbol, nd.head_is_left, tok))

    def restore():
        for nd, cat, kids, ops, opsym, h, tok in saved:
            nd.cat, nd.op_string, nd.op_symbol, nd.head_is_left = cat, ops, opsym, h
            nd.children[:] = kids
            if tok is not None:
                tok[0].clear()
                tok[0].update(tok[1])
    return restore


def walk(t):
    yield t
    if not t.is_leaf:
        for c in t.children:
            yield from walk(c)


def same_structure(a, b, heads=True, labels=False, symbols=False):
    """None if equal, else a reason"""
    if a.is_leaf != b.is_leaf:
        return 'leaf-vs-node'
    if not (a.cat == b.cat):
        return 'category'
    if a.is_leaf:
        return None
    if len(a.children) != len(b.children):
        return 'arity'
    if heads and len(a.children) == 2 and bool(a.head_is_left) != bool(b.head_is_left):
        return 'head-flag'
    if labels and a.op_string != b.op_string:
        return 'label'
    if symbols and a.op_symbol != b.op_symbol:
        return 'symbol'
    for x, y in zip(a.children, b.children):
        r = same_structure(x, y, heads, labels, symbols)
        if r:
            return r
    return None
