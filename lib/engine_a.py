"""Engine A driver: builds the symbolic-execution binary from the current /repo/depccg/parsing.h and runs obligations on it,
distributing decision-prefix subtrees over the cores."""
import concurrent.futures
import json
import os
import shutil
import subprocess
import tempfile
import time

VERIF = os.path.dirname(os.path.dirname(os.path.abspath(__file__)))
REPO = os.environ.get('VERIF_REPO', '/repo')
NPROC = int(os.environ.get('VERIF_NPROC', '16'))


class Build:
    def __init__(self):
        self.dir = tempfile.mkdtemp(prefix='verif-engA-')
        self.explorer = os.path.join(self.dir, 'explorer')
        self.dump_dir = os.path.join(self.dir, 'dump')
        os.makedirs(self.dump_dir, exist_ok=True)
        src = os.path.join(VERIF, 'engines', 'symfloat')
        hdr = os.path.join(REPO, 'depccg', 'parsing.h')
        cmd = ['g++', '-O2', '-std=c++17', '-DPARSING_H="%s"' % hdr, '-I', src, os.path.join(src, 'explorer.cpp'), '-o', self.explorer, '-lz3']
        p = subprocess.run(cmd, capture_output=True, text=True)
        if p.returncode != 0:
            raise RuntimeError('Engine A build failed (harness error):\n' + p.stderr[-3000:])

    def close(self):
        shutil.rmtree(self.dir, ignore_errors=True)


def _run(cmd, timeout):
    try:
        p = subprocess.run(cmd, capture_output=True, text=True, timeout=timeout)
        out = p.stdout
        rc = p.returncode
    except subprocess.TimeoutExpired as e:
        out = (e.stdout or b'').decode() if isinstance(e.stdout, bytes) else (e.stdout or '')
        rc = 'deadline'
    recs = []
    for l in out.splitlines():
        l = l.strip()
        if l.startswith('{'):
            try:
                recs.append(json.loads(l))
            except Exception:
                pass
    return rc, recs


def run_obligation(build, name, spec, max_seconds=300.0, frontier=256, pool=None, dump_every=0):
    """returns dict(name, paths, violations=[...], records=[...], summary fields, exhaustive)"""
    t0 = time.time()
    sf = os.path.join(build.dir, 'spec_%d_%d.txt' % (os.getpid(), abs(hash(name)) % 10 ** 9))
    open(sf, 'w').write(spec)
    agg = dict(name=name, paths=0, infeasible=0, unsupported=0, queries=0, unknown=0, solver_s=0.0, parsed=0, failed=0, with_unary=0,
               full_nbest=0, beam_cut=0, step_budget_hit=0, violations=[], kinds={}, records=[], exhaustive=True, errors=[])

    def absorb(rc, recs):
        got_summary = False
        for r in recs:
            t = r.get('type')
            if t == 'summary':
                got_summary = True
                for k in ('paths', 'infeasible', 'unsupported', 'queries', 'unknown', 'parsed', 'failed', 'with_unary', 'full_nbest', 'beam_cut', 'step_budget_hit'):
                    agg[k] += r.get(k, 0)
                agg['solver_s'] += r.get('solver_s', 0.0)
                for k, v in r.get('kinds', {}).items():
                    agg['kinds'][k] = agg['kinds'].get(k, 0) + v
                if not r.get('exhausted', True) or r.get('unexplored', 0):
                    agg['exhaustive'] = False
            elif t == 'violation':
                agg['violations'].append(r)
            elif t == 'path':
                agg['records'].append(r)
        if not got_summary:
            agg['exhaustive'] = False
            if rc == 'deadline':      # killed 30 s after its time budget (one long path or solver call): inconclusive for its prefixes, not an error
                agg['killed_at_deadline'] = agg.get('killed_at_deadline', 0) + 1
            else:
                agg['errors'].append('explorer ended without summary (rc=%s)' % rc)
    rc, recs = _run([build.explorer, sf, '--frontier', str(frontier), '--max-seconds', str(max_seconds / 2)], max_seconds)
    prefixes = [r['p'] for r in recs if r.get('type') == 'prefix']
    absorb(rc, [r for r in recs if r.get('type') != 'prefix'])
    if prefixes:
        batches = [prefixes[i::max(1, min(len(prefixes), NPROC * 8))] for i in range(max(1, min(len(prefixes), NPROC * 8)))]
        files = []
        for i, b in enumerate(batches):
            f = sf + '.start%d' % i
            open(f, 'w').write('\n'.join(b) + '\n')
            files.append(f)
        deadline = t0 + max_seconds

        def work(f):
            rem = deadline - time.time()
            if rem < 1.0:
                return -1, [dict(type='summary', exhausted=False, unexplored=1)]
            extra = ['--dump-dir', build.dump_dir, '--dump-every', str(dump_every)] if dump_every else []
            return _run([build.explorer, sf, '--start', f, '--max-seconds', str(rem)] + extra, rem + 30)
        own = pool is None
        ex = pool or concurrent.futures.ThreadPoolExecutor(NPROC)
        futs = [ex.submit(work, f) for f in files]
        for fu in futs:
            absorb(*fu.result())
        if own:
            ex.shutdown()
    agg['wall_s'] = round(time.time() - t0, 2)
    agg['solver_s'] = round(agg['solver_s'], 2)
    if agg['unsupported'] or agg['unknown']:
        agg['exhaustive'] = False
    return agg


# ---- grammars (concrete rule tables served by the harness's scaffold callback) ---------------------------------------------------

def spec_text(n, T, binary, unary=(), roots=(), nbest=1, pruning=None, use_beta=False, beta=0.5, max_step=100000, penalty='0',
              below=(), checks='omsnb', records=False, record_every=1, flat=(), lo=None, eq=()):
    lines = ['n %d T %d nbest %d pruning %d max_step %d use_beta %d beta %r penalty %s' % (n, T, nbest, pruning if pruning is not None else T, max_step, 1 if use_beta else 0, beta, penalty)]
    for i, c in below:
        lines.append('below %d %d' % (i, c))
    for i, c in flat:
        lines.append('flat %d %d' % (i, c))
    if lo is not None:
        lines.append('lo %d' % lo)
    for kind, i, j, v in eq:
        lines.append('eq %s %d %d %d' % (kind, i, j, v))
    for r in roots:
        lines.append('root %d' % r)
    for x, y, c, h, lab in binary:
        lines.append('binary %d %d %d %d %s' % (x, y, c, 1 if h else 0, lab))
    for x, c, lab in unary:
        lines.append('unary %d %d %s' % (x, c, lab))
    lines.append('checks ' + checks)
    if records:
        lines.append('records 1 record_every %d' % record_every)
    return '\n'.join(lines) + '\n'


def one_tag_per_word(n, T):
    """word i may only use tag i: the other tags of the word are constrained below it (a partition piece of the matrix space)"""
    return [(i, c) for i in range(n) for c in range(T) if c != i]


def cross_check(build, limit=60, timeout=60):
    """re-discharge the dumped per-path queries (path condition & some checked condition: expected unsat) with cvc5 and the z3 binaries"""
    import glob
    files = sorted(glob.glob(os.path.join(build.dump_dir, '*.smt2')))[:limit]
    solvers = [('cvc5', ['cvc5', '--lang', 'smt2']), ('z3-4.8.12', ['/usr/bin/z3']), ('z3-new', ['z3-new'])]
    res = dict(queries=len(files), agree_unsat=0, disagreements=[], inconclusive=0, solvers=[n for n, _ in solvers])
    for f in files:
        answers = {}
        for name, cmd in solvers:
            try:
                p = subprocess.run(cmd + [f], capture_output=True, text=True, timeout=timeout)
                out = (p.stdout + p.stderr).strip().splitlines()
                a = out[0].strip() if out else 'no-output'
                if '(error' in (p.stdout + p.stderr):
                    a = 'error'
            except subprocess.TimeoutExpired:
                a = 'timeout'
            except FileNotFoundError:
                a = 'missing'
            answers[name] = a
        if all(a == 'unsat' for a in answers.values()):
            res['agree_unsat'] += 1
        elif any(a == 'sat' for a in answers.values()):
            res['disagreements'].append(dict(file=os.path.basename(f), answers=answers))
        else:
            res['inconclusive'] += 1
            res.setdefault('inconclusive_answers', []).append(answers)
    return res
