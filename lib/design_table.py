"""renders the as-built table of DESIGN.md section 0 from MANIFEST.json and the evidence files of the last quick run"""
import json, os, re
V = os.path.dirname(os.path.dirname(os.path.abspath(__file__)))
m = json.load(open(os.path.join(V, 'MANIFEST.json')))
rows = ['| id | engines | obligations | paths (regions) | solver queries | validated on the real code | quick wall (s) | exhaustive within bounds |', '|---|---|---|---|---|---|---|---|']
for c in m['checks']:
    pid = c['property_id']
    p = os.path.join(V, 'evidence', pid + '.json')
    if not os.path.exists(p):
        continue
    e = json.load(open(p))
    cov = e['coverage']
    rows.append('| %s | %s | %s | %s | %s | %s | %s | %s |' % (pid, c.get('engine', ''), cov.get('obligations'), cov.get('states'), cov.get('solver_queries'),
                                                        cov.get('traces_validated_against_impl'), e.get('wall_s'), cov.get('exhaustive')))
table = '\n'.join(rows)
p = os.path.join(V, 'DESIGN.md')
s = open(p).read()
block = '<!-- as-built table start -->\n**As built (numbers from the last quick run on the current tree, this sandbox, 16 cores):**\n\n' + table + '\n<!-- as-built table end -->'
if '<!-- as-built table start -->' in s:
    s = re.sub(r'<!-- as-built table start -->.*?<!-- as-built table end -->', lambda mm: block, s, flags=re.S)
else:
    s = s.replace('Engines: **A** = symbolic execution of `parsing.h` (C++)', block + '\n\nEngines: **A** = symbolic execution of `parsing.h` (C++)', 1)
open(p, 'w').write(s)
print('table rendered')
