#!/bin/sh
# runs every registered check once (default tier quick) on /repo's current tree; prints rc and wall time per check
TIER=${1:-quick}
cd "$(dirname "$0")/.."
for p in C01 C02 C03 C04 C05 C06 C07 C08 C09 C10 C11 C12 C13 C14 C15 C16 C17 C18 C19 C20; do
  s=$(date +%s)
  ./vcheck $p --tier $TIER > /tmp/runall_$p.log 2>&1; rc=$?
  e=$(date +%s)
  echo "$p rc=$rc $((e-s))s $(grep -c '^KNOWN-FINDING' /tmp/runall_$p.log) known | $(grep "$p $TIER:" /tmp/runall_$p.log | tail -1 | cut -c1-160)"
done
