"""Validation of Engine P's encoding (DESIGN §4): (i) the repository's own suite runs against the instrumented modules and must
pass identically; (ii) differential self-test of every SymStr method and of the regex matcher against str / re on the
characters that matter, with concrete code points wrapped as symbolic strings (forced-symbolic mode)."""
import os
import sys

VERIF = os.path.dirname(os.path.dirname(os.path.abspath(__file__)))
sys.path.insert(0, VERIF)


def suite_under_instrumentation():
    from engines.pysym import hook
    hook.install(instrument=True)
    import pytest
    os.chdir(hook.REPO)
    sys.path.insert(0, hook.REPO)

    class Count:
        passed = failed = 0

        def pytest_runtest_logreport(self, report):
            if report.when == 'call':
                if report.passed:
                    Count.passed += 1
                elif report.failed:
                    Count.failed += 1
    import io, contextlib
    buf = io.StringIO()
    with contextlib.redirect_stdout(buf):
        pytest.main(['-q', '-p', 'no:cacheprovider', '--continue-on-collection-errors', '--no-header', '-q', 'tests/test_cat.py', 'tests/test_unification.py', 'tests/grammar'], plugins=[Count()])
    if Count.failed:
        print(buf.getvalue()[-3000:])
    return Count.passed, Count.failed


def differential():
    import re
    from engines.pysym import core, symre
    from engines.pysym.core import E, SymStr
    E.force_sym = True
    E.new_obligation()
    E.reset([])
    bad = []
    samples = ['', 'a', 'ab c', ' a  b ', '(S[dcl]\\NP)/NP', 'a<b>|c', "x'y\\z", '][conj]', 'a,b=c', '-LRB-', 'Ａ　ｂ', 'é-ß', '\tq\n', 'aXbXc', 'NP[nb]/N']
    args = {'split': [(), (' ',), ('X',), (',',)], 'strip': [(), ('a',), (' x',)], 'lstrip': [()], 'rstrip': [()], 'find': [('b',), ('X', 2), ('',)], 'rfind': [('b',)],
            'replace': [('a', 'bb'), ('X', ''), ('>', '-RAB-')], 'startswith': [('a',), ('(',)], 'endswith': [(']',), ('c',)], 'count': [('X',), ('a',)], 'lower': [()],
            'join': [(['p', 'q'],), ([],)], 'index': [('a',)], 'splitlines': [()], 'isspace': [()],
            'partition': [('X',), (' ',), ('[',)], 'rpartition': [('X',), ('b',)], 'rsplit': [('X', 1), (' ', 2), ('a',)], 'removeprefix': [('a',), ('(S',)], 'removesuffix': [('c',), ('',)],
            'ljust': [(6,), (2, '*')], 'rjust': [(7, '.')], 'center': [(6,), (7,), (8, '-'), (1,)]}
    for s in samples:
        ss = core.mk(list(map(ord, s)))
        for m, argl in args.items():
            for a in argl:
                try:
                    exp = getattr(s, m)(*a)
                except Exception as e:
                    exp = type(e).__name__
                try:
                    got = getattr(SymStr, m)(ss, *a)
                    got = _plain(got)
                except core.Unsupported:
                    continue
                except Exception as e:
                    got = type(e).__name__
                if got != exp:
                    bad.append((s, m, a, got, exp))
        for i in range(-2, len(s) + 1):
            for j in (None, i + 2):
                if _plain(ss[i:j]) != s[i:j]:
                    bad.append((s, 'slice', i, j))
        for pat, repl in ((r'([\[\]\(\)/\\|<>])', r' \1 '), (r'{.+?}', ''), (r'\.', '_DOT'), (r'^-$', '_HYPHEN'), (r'-', '_dash_'), (r'a*', 'z'), (r'[^a]+', '#')):
            try:
                exp = re.sub(pat, repl, s)
            except Exception as e:
                exp = type(e).__name__
            try:
                got = _plain(symre.sub(pat, repl, ss))
            except core.Unsupported:
                continue
            if got != exp:
                bad.append((s, 're.sub', pat, got, exp))
        for pat in (r'([\w\\/()]+)(\[.+?\])*', r'\w+', r'__.*__'):
            exp = re.findall(pat, s)
            try:
                got = _plain(symre.findall(pat, ss))
            except core.Unsupported:
                continue
            if got != _plain(exp):
                bad.append((s, 're.findall', pat, got, exp))
        for pat in (r'([\[\]\(\)/\\|<>])', r'\s*([\[\]\(\)/\\|<>])\s*', r'X', r'\s+', r'[,=]'):
            exp = re.split(pat, s)
            try:
                got = _plain(symre.split(pat, ss))
            except core.Unsupported:
                continue
            if got != _plain(exp):
                bad.append((s, 're.split', pat, got, exp))
    E.force_sym = False
    E.active = False
    return bad


def _plain(x):
    from engines.pysym.core import SymStr
    if isinstance(x, SymStr):
        return ''.join(chr(c) for c in x.chars)
    if isinstance(x, (list, tuple)):
        return type(x)(_plain(y) for y in x) if isinstance(x, list) else tuple(_plain(y) for y in x)
    return x


def main():
    bad = differential()
    print('differential self-test: %d disagreements' % len(bad))
    for b in bad[:10]:
        print('   ', b)
    passed, failed = suite_under_instrumentation()
    print('repository suite under instrumentation: %d passed, %d failed' % (passed, failed))
    if bad or failed or passed < 3583:
        print('ENGINE SELF-VALIDATION FAILED')
        return 3
    print('engine self-validation ok')
    return 0


if __name__ == '__main__':
    sys.exit(main())
