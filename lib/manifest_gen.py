"""regenerates MANIFEST.json from the table below (keeps it valid and current)"""
import json, os
VERIF = os.path.dirname(os.path.dirname(os.path.abspath(__file__)))
props = [json.loads(l) for l in open(os.path.join(VERIF, 'properties.jsonl'))]
NOTE_P = ('trusted: z3 5.1.0, Engine P (proxy strings + AST-rewriting import hook + regex matcher; validated by running sampled path witnesses and every '
          'counterexample on the uninstrumented modules, and by the repository suite under instrumentation), the oracle written from the statement; '
          'bounds and exclusions are in the evidence file and DESIGN.md')
CLAIMED = {
    'C13': dict(engine='P', design='§8 C13', technique='bounded symbolic execution of depccg/cat.py on z3 (all paths within size/length bounds), counterexample replay',
                text='for every pair/triple of category values within the shape and string-length bounds, with every character a solver variable, the value laws hold on every feasible path of the real __eq__/__xor__/clear_features/__str__; the hash law is decided on a solver-chosen witness per path with the real generated __hash__'),
}
CLAIMED.update({
    'C05': dict(engine='P', design='§8 C05', technique='bounded symbolic execution of Category.parse/__str__ on z3 (symbolic text through the tokenizer regex), replay; exhaustive ground evaluation of shipped category strings',
                text='for every category value within the bounds (all characters solver variables) print->parse is the identity, redundant brackets/blanks never change the value, text with two unbracketed slashes at one level is rejected; plus every shipped category string round-trips'),
    'C03': dict(engine='P', design='§8 C03', technique='bounded symbolic execution of en.apply_binary_rules + Unification on z3 against a reference reading of the CCG schemata, replay',
                text='for every ordered pair of categories within the shape/length bounds, every result of the real English rule functions is justified by the schema its label names and the converse (identical matched parts) holds, on every feasible path'),
})
CLAIMED.update({
    'C04': dict(engine='P', design='§8 C04', technique='bounded symbolic execution of ja.apply_binary_rules/apply_unary_rules + Unification on z3 against a reference reading of the Japanese schemata, replay',
                text='for every ordered pair of categories with three-part features within the bounds every result of the real Japanese rule functions is justified by the schema its symbol names (head right, crossed composition keeps the secondary slash, variables instantiated from inputs), and unary steps carry the label the input shape demands, on every feasible path'),
})
CLAIMED.update({
    'C06': dict(engine='P', design='§8 C06', technique='bounded symbolic execution of Unification on z3, differential against a reference matcher written from the statement, replay',
                text='for every pattern pair the grammars use (read from the AST) plus synthetic ones and every pair of inputs within the shape/feature bounds: same verdict as the reference matcher, bindings are the matched sub-categories up to instantiation of variable features, no binding after failure, one answer per matcher — on every feasible path'),
    'C14': dict(engine='P', design='§8 C14', technique='bounded symbolic execution of both grammars\' rule functions on z3 with the set-iteration order (hash seed) as a solver variable; PYTHONHASHSEED replay',
                text='within the bounds: no exception, arguments unchanged, second call equal, result independent of the iteration order of the shared-variable set, seen-rule filter is all-or-nothing on the erased pair, English results independent of nb marks, unary tables return exactly their targets in order'),
})
NOTE_A = ('trusted: libz3 4.8.12 / z3 5.1.0, g++, libstdc++ containers (run for real), the symbolic scalar sym::Float (linear terms over integer score variables; exp handled exactly for exp/exp comparisons), '
          'the independent CKY oracle, the mechanical translation of parsing.pyx used by the native replay (validated: native pops/trees must agree with the symbolic record on every validated path); '
          'claims are about integer-valued score matrices within the stated sentence/tag bounds')
_A = dict(engine='A+N', note=NOTE_A)
CLAIMED.update({
    'C01': dict(_A, design='§8 C01', technique='symbolic execution of parsing.h (float := symbolic linear scalar) over all comparison outcomes, z3 discharges optimality/monotonicity per path against a CKY oracle; native replay',
                text='for every score matrix within the sentence/tag bounds: every feasible path of the real parse_sentence returns a parse no oracle derivation beats, fails only if none exists (or the step budget ran out), and pops agenda items in non-increasing priority'),
    'C02': dict(_A, design='§8 C02', technique='symbolic execution of parsing.h partitions score space; per path the back-pointer tree is validated symbolically and the Tree delivered by the real finalizer for a solver witness is validated natively',
                text='every tree the search/finalizer returns on any explored path is a licensed derivation over the admitted tags with an allowed root, carries the input tokens in order, and equals the search record; failures yield only the placeholder'),
    'C09': dict(_A, design='§8 C09', technique='symbolic execution of parsing.h; z3 proves reported score term == term recomputed from the returned tree on every path; native recomputation from the delivered Tree (head flags as delivered)',
                text='on every explored path the score attached to every returned tree equals tags + dependencies by head flags + root attachment - penalty per unary node, symbolically for the back-pointer tree and numerically for the delivered Tree objects'),
    'C10': dict(_A, design='§8 C10', technique='symbolic execution of parsing.h with nbest 2-3; z3 discharges count/order/k-largest against the CKY oracle per path; native replay',
                text='for every score matrix within the bounds the n-best list has min(k, #derivations) pairwise different trees in non-increasing order whose scores dominate every derivation not returned'),
    'C12': dict(_A, engine='A+N+P', design='§8 C12', technique='symbolic execution of parsing.h enumerates paths; the Tree delivered by the real retrieve_tree for each path witness must carry label, symbol and head direction of the grammar result with the recorded rule id',
                text='parser side: on every explored path every node of every delivered tree carries the creating rule\'s label/symbol/head direction, also when several results exist for the same children reader side (Engine P): grammar-licensed derivations printed as auto/ptb/xml/jigg_xml read back with the creating rule\'s label (and head direction where the format has no head field); underivable nodes come back as unk'),
    'C16': dict(_A, design='§8 C16', technique='symbolic execution of parsing.h incl. the beam loop (exp modelled exactly for exp/exp); z3 discharges "leaf within beam" and "failure implies no derivation inside the beam" per path; native replay',
                text='for every tag-score matrix within the bounds, every pruning_size in 1..3 and beta in {0.5,0.05,1e-5} or filter off: no returned tree uses a tag outside the stated beam, and a parse fails only if no derivation lies inside the tie-strict beam'),
})
CLAIMED.update({
    'C08': dict(engine='P', design='§8 C08', technique='bounded symbolic execution of auto_of/conll_of -> read_auto -> auto_of on z3 with symbolic token/pos strings and head flags (incl. literal-extended tokens), replay on real files',
                text='for every tree within the shape bound and every token/pos within the length bound (each character a solver variable over printable non-blank text without backslash): reading the printed AUTO line gives the same categories, shape, head flags, pos and escaped words, reprinting reproduces the line, conll fragments concatenate to it'),
    'C18': dict(engine='P', design='§8 C18', technique='bounded symbolic execution of to_string over symbolic format sequences (k-way forks) and symbolic tokens; deep snapshots compared after every rendering; replay with real lxml/json',
                text='for every sequence of 2 (3) output formats applied to the same result objects within the bounds, every tree/category/token is unchanged after every rendering and the last output equals the rendering of a fresh copy'),
    'C19': dict(engine='P+N', design='§8 C19', technique='symbolic execution (forks over lexicon, rule results, unary steps, batch position; symbolic token) of the real rule functions building derivations, rendered by every formatter; replay with real lxml/json; plus a concrete stage: results of the natively built parser for parsable, rootless, analysis-free, too long and out-of-steps sentences rendered by every format',
                text='every derivation of <= 3 leaves the real grammars license over the lexicon, every label they can return (one licensed example each), and the failure placeholder alone or inside a batch render without error in every CLI format except the two that need nltk, and the other sentences of the batch appear in the output'),
    'C20': dict(engine='P', design='§8 C20', technique='bounded symbolic execution of ptb_of -> read_ptb and ja_of -> read_ccgbank on z3 with symbolic tokens, labels and annotations; every proper prefix of a PTB line; replay on real files',
                text='within the bounds PTB and Japanese-bank text written by depccg reads back to the same categories, shape, words (and rule symbols for ja), with and without bank annotations; truncated PTB lines are rejected; one recorded finding (PTB tokens beginning with "(" or ending with ")")'),
})
CLAIMED.update({
    'C17': dict(engine='P', design='§8 C17', technique='bounded symbolic execution of apply_category_filters/_binarize/_type_check on z3 (symbolic words, dictionary keys and category subsets; opaque score cells); exhaustive ground evaluation of the shipped dictionary and inventories',
                text='for every document/dictionary within the bounds each cell keeps its value or becomes the large negative value exactly as stated, dependency scores and token order are untouched; every shipped dictionary category is in the inventory and every shipped category string is well formed'),
    'C11': dict(engine='P+Z+A+N', design='§8 C11', note=NOTE_P + '; ' + NOTE_A, technique='symbolic execution of depccg.parsing.run with the worker completion order as a solver variable; z3 proof of the chunk arithmetic generated from the AST of _chunks; native batches built from solver witnesses of the search paths',
                text='for every batch <= 6, process count <= 4, chunk size and every completion order the result list is aligned with the input; chunk slices are contiguous/ordered/non-empty/covering for len <= 10^6; misfitting shapes are rejected before parsing; each witness sentence gets the same result alone, after/before another sentence, around a too-long sentence, twice in a batch and through a real 2-process pool'),
})
CLAIMED.update({
    'C15': dict(engine='P', design='§8 C15', technique='symbolic execution (forks over lexicon/rule results, symbolic token attributes) of xml_of->read_xml, to_jigg_xml->read_jigg_xml, build_ccg_tree, normalize_tokens (regex chain through the engine\'s matcher) on z3; replay through real XML text and lxml',
                text='within the bounds C&C XML reads back to the same tree, labels and token attributes, Jigg XML to the same categories/shape/words; every Jigg sentence is self-contained (unique span ids, resolving references, tiling offsets, one root), ccg2lambda\'s tree builder rebuilds an isomorphic tree with the rule labels, token names are normalised; one recorded finding (label of an equal-result rule)'),
})
CLAIMED.update({
    'C07': dict(engine='P', design='§8 C07, Appendix A', technique='bounded symbolic execution of to_string and every formatter on z3 with symbolic token attributes and head flags; one independent tolerant decoder per format runs under the same engine; replay with real lxml/json',
                text='for every tree within the shape bound, every token attribute within the length bound (each character a solver variable over printable non-blank text) and a 2-sentence batch with an n-best pair: each format decodes, with an independent reader, to the derivation that was printed (words, shape, categories in the format\'s spelling, labels, head flags, attributes, offsets, numbering, conll heads); two recorded findings (PTB bracket tokens, Japanese field characters)'),
})
REASONS = {}
def main():
    checks = []
    na = []
    for p in props:
        pid = p['id']
        if pid in CLAIMED:
            c = CLAIMED[pid]
            checks.append(dict(property_id=pid, quick_cmd='./vcheck %s --tier quick' % pid, thorough_cmd='./vcheck %s --tier thorough' % pid,
                               evidence_file='evidence/%s.json' % pid, replay_cmd_template='./vcheck replay {path}', engine=c['engine'],
                               level_claimed=dict(category='model_checking', text=c['text'], design_ref=c['design']),
                               level_note=c.get('note', NOTE_P), technique=c['technique']))
        else:
            na.append(dict(property_id=pid, reason=REASONS.get(pid, 'check not landed yet in this build (planned in DESIGN.md §8); no claim is made for it')))
    m = dict(version=1, setup_cmd='./setup.sh',
             hooks=dict(guard='DEPCCG_VERIF', enable='none: no hooks are compiled into or imported by depccg; observation is by import-time AST rewriting and compile-time type substitution on scratch copies',
                        baseline_off_cmd='cd /repo && /venv/bin/python -m pytest -ra -q -p no:cacheprovider --timeout=900 --continue-on-collection-errors', source_commits=[], add_only=True),
             engines=[dict(name='P', path='engines/pysym', serves_properties=sorted(k for k, v in CLAIMED.items() if 'P' in v['engine']), kind_free_text='symbolic execution of the real Python modules with proxy strings on z3'),
                      dict(name='A', path='engines/symfloat', serves_properties=sorted(k for k, v in CLAIMED.items() if 'A' in v['engine']), kind_free_text='symbolic execution of depccg/parsing.h (float replaced by a linear symbolic scalar) on z3'),
                      dict(name='N', path='engines/native', serves_properties=sorted(k for k, v in CLAIMED.items() if 'N' in v['engine']), kind_free_text='native build of parsing.h + mechanical translation of parsing.pyx: replay and per-path witnesses')],
             checks=checks, not_applicable=na,
             notes='Bounded solver-based checking; every claim is relative to the bounds printed in the evidence file. See DESIGN.md.')
    json.dump(m, open(os.path.join(VERIF, 'MANIFEST.json'), 'w'), indent=1)
if __name__ == '__main__':
    main()
