"""Engine N: native build of parsing.h + mechanical translation of parsing.pyx; concrete runs in a fresh interpreter."""
import json
import os
import shutil
import subprocess
import sys
import tempfile

VERIF = os.path.dirname(os.path.dirname(os.path.abspath(__file__)))
REPO = os.environ.get('VERIF_REPO', '/repo')
PY = sys.executable


class Build:
    def __init__(self):
        self.dir = tempfile.mkdtemp(prefix='verif-engN-')
        src = os.path.join(VERIF, 'engines', 'native')
        lib = os.path.join(self.dir, 'libdepccg_native.so')
        p = subprocess.run(['g++', '-O2', '-std=c++17', '-shared', '-fPIC', '-I', os.path.join(REPO, 'depccg'),
                            os.path.join(src, 'shim.cpp'), '-o', lib], capture_output=True, text=True)
        if p.returncode != 0:
            raise RuntimeError('Engine N build failed (harness error):\n' + p.stderr[-3000:])
        sys.path.insert(0, src)
        import pyx2py
        gen = pyx2py.translate(open(os.path.join(REPO, 'depccg', 'parsing.pyx'), encoding='utf-8').read())
        import ast
        try:
            ast.parse(gen)
        except SyntaxError as e:
            raise RuntimeError('translation of parsing.pyx is not valid Python (harness error): %s' % e)
        open(os.path.join(self.dir, '_parsing_gen.py'), 'w').write(gen)
        shutil.copy(os.path.join(src, 'cyrt.py'), self.dir)

    def close(self):
        shutil.rmtree(self.dir, ignore_errors=True)

    def run(self, jobs, timeout=900, env=None):
        """jobs: list of dicts (see native_run.py).  Returns list of results."""
        if not jobs:
            return []
        f = tempfile.mktemp(prefix='jobs-', suffix='.json', dir=self.dir)
        o = f + '.out'
        json.dump(jobs, open(f, 'w'))
        e = dict(os.environ, VERIF_CONCRETE='1')
        if env:
            e.update(env)
        p = subprocess.run([PY, os.path.join(VERIF, 'lib', 'native_run.py'), self.dir, f, o], capture_output=True, text=True, timeout=timeout, env=e)
        if p.returncode != 0 or not os.path.exists(o):
            raise RuntimeError('native run failed (harness error): rc=%s\n%s\n%s' % (p.returncode, p.stdout[-1500:], p.stderr[-3000:]))
        return json.load(open(o))
