"""(fresh interpreter) runs concrete parsing jobs through the real depccg.parsing.run -> translated parsing.pyx -> native parsing.h"""
import importlib.util
import json
import os
import sys

VERIF = os.path.dirname(os.path.dirname(os.path.abspath(__file__)))
sys.path.insert(0, VERIF)
sys.setrecursionlimit(10000)


def setup(build_dir):
    from engines.pysym import hook
    hook.install(instrument=False)
    sys.path.insert(0, build_dir)
    import cyrt
    cyrt.load(os.path.join(build_dir, 'libdepccg_native.so'))
    spec = importlib.util.spec_from_file_location('depccg._parsing', os.path.join(build_dir, '_parsing_gen.py'))
    m = importlib.util.module_from_spec(spec)
    sys.modules['depccg._parsing'] = m
    spec.loader.exec_module(m)
    import depccg
    depccg._parsing = m
    return cyrt


def cat_id(c):
    return int(str(c)[1:])


def tree_key(t):
    if t.is_leaf:
        return str(cat_id(t.cat))
    if t.is_unary:
        return '(%d^%s %s)' % (cat_id(t.cat), t.op_string, tree_key(t.children[0]))
    return '(%d%s%s %s %s)' % (cat_id(t.cat), '<' if t.head_is_left else '>', t.op_string, tree_key(t.children[0]), tree_key(t.children[1]))


def tree_shape(t):
    if t.is_leaf:
        return str(cat_id(t.cat))
    return '(%d %s)' % (cat_id(t.cat), ' '.join(tree_shape(c) for c in t.children))


def nodes(t, out):
    out.append([cat_id(t.cat), 0 if t.is_leaf else len(t.children), t.op_string, t.op_symbol, bool(t.head_is_left)])
    if not t.is_leaf:
        for c in t.children:
            nodes(c, out)
    return out


class TableBinary:
    def __init__(self, table):
        self.table = table

    def __call__(self, x, y):
        return list(self.table.get((cat_id(x), cat_id(y)), []))


class TableUnary:
    def __init__(self, table):
        self.table = table

    def __call__(self, x):
        return list(self.table.get(cat_id(x), []))


def run_table_job(job, cyrt):
    import numpy as np
    import depccg.parsing as P
    from depccg.cat import Category
    from depccg.types import Token, ScoringResult, CombinatorResult
    ncats = job['ncats']
    cats = [Category.parse('C%d' % i) for i in range(ncats)]
    T = job['T']
    btab, utab = {}, {}
    def names(lab):      # 'label' (symbol = LABEL) or 'label|symbol' (a pair from a real grammar's vocabulary, for the printers' label tables)
        return tuple(lab.split('|', 1)) if '|' in lab else (lab, lab.upper())
    for x, y, c, h, lab in job['binary']:
        btab.setdefault((x, y), []).append(CombinatorResult(cats[c], names(lab)[0], names(lab)[1], bool(h)))
    for x, c, lab in job['unary']:
        utab.setdefault(x, []).append(CombinatorResult(cats[c], names(lab)[0], names(lab)[1], True))
    calls = []
    bf, uf = TableBinary(btab), TableUnary(utab)
    doc, scores = [], []
    for s in job['sentences']:
        n = len(s['tag'])
        toks = [Token(word='w%d' % i, lemma='l', pos='P', entity='O', chunk='I') for i in range(n)]
        doc.append(toks)
        scores.append(ScoringResult(np.array(s['tag'], dtype=np.float32).reshape(n, T), np.array(s['dep'], dtype=np.float32).reshape(n, n + 1)))
    cfg = job['config']
    cyrt.POP_LOG.clear()
    out = dict(error=None)
    try:
        res = P.run(doc, scores, cats[:T], [cats[r] for r in job['roots']], bf, uf,
                    unary_penalty=cfg.get('unary_penalty', 0.0), beta=cfg.get('beta', 0.5), use_beta=cfg.get('use_beta', False),
                    pruning_size=cfg.get('pruning_size', T), nbest=cfg.get('nbest', 1), max_step=cfg.get('max_step', 100000),
                    max_length=cfg.get('max_length', 250), processes=cfg.get('processes', 1), max_chunk_size=cfg.get('max_chunk_size', 1000))
    except BaseException as e:
        import traceback
        out['error'] = '%s: %s | %s' % (type(e).__name__, e, traceback.format_exc()[-800:])
        return out
    if job.get('render'):
        # what the parser really returned, handed to the printers (C19): every format must render it
        from depccg.printer import to_string
        from depccg.lang import set_global_language_to
        set_global_language_to(job.get('lang', 'en'))
        errs = {}
        for f in job['render']:
            try:
                to_string(res, format=f)
            except Exception as e:
                errs[f] = '%s: %s' % (type(e).__name__, str(e)[:120])
        out['render_errors'] = errs
        out['result_list_lengths'] = [len(x) for x in res]
    sents = []
    for toks, trees in zip(doc, res):
        ts = []
        for st in trees:
            t = st.tree
            leaves = t.leaves
            placeholder = len(leaves) == 1 and leaves[0].children[0].get('word') == 'FAILED' and st.score == -float('inf')
            ts.append(dict(score=(None if st.score == -float('inf') else float(st.score)), placeholder=placeholder,
                           key=None if placeholder else tree_key(t), shape=None if placeholder else tree_shape(t), nodes=None if placeholder else nodes(t, []),
                           tokens_identical=(not placeholder) and len(leaves) == len(toks) and all(l.children[0] is tk for l, tk in zip(leaves, toks)),
                           leaf_cat=str(t.cat) if placeholder else None))
        sents.append(ts)
    out['sentences'] = sents
    out['n_results'] = len(res)
    out['pops'] = [[list(p) for p in pl] for pl in cyrt.POP_LOG]
    out['calls'] = len(calls)
    return out


def main():
    build_dir, jf, of = sys.argv[1:4]
    cyrt = setup(build_dir)
    jobs = json.load(open(jf))
    out = []
    for job in jobs:
        out.append(run_table_job(job, cyrt))
    json.dump(out, open(of, 'w'))


if __name__ == '__main__':
    main()
