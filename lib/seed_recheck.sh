#!/bin/bash
# usage: seed_recheck.sh <seed name> [<check>...]
# Re-runs checks against a stored seeded change: scratch worktree of /repo's HEAD under /tmp, seeded/<name>/patch.diff applied,
# checks run with VERIF_REPO pointing at it, worktree removed.  Default check: the property the seed breaks.
# Prints one line "<seed> <check>:rc=<rc>[:violations=<n>] ..." ; rc=1 counts as caught only with a VIOLATION line.
NAME=$1; shift
V=$(cd "$(dirname "$0")/.." && pwd)
CHECKS="$@"; [ -z "$CHECKS" ] && CHECKS=$(echo $NAME | cut -c1-3)
[ -z "$*" ] && [ -f $V/benign/$NAME/meta.json ] && CHECKS=$(python3 -c "import json,re;print(' '.join(re.findall(r'(C\d\d):', json.load(open('$V/benign/$NAME/meta.json'))['checks_run_with_change_applied'])))")
WT=/tmp/seedre_$$_$NAME
git -C /repo worktree add -q --detach $WT HEAD || exit 2
D=seeded; [ -d $V/benign/$NAME ] && D=benign     # benign/<name>: behaviour-preserving refactorings (expected: rc=0)
( cd $WT && git apply $V/$D/$NAME/patch.diff ) || { echo "$NAME PATCH-DOES-NOT-APPLY"; git -C /repo worktree remove --force $WT; exit 2; }
RES=""
for C in $CHECKS; do
  L=/tmp/seedre_${NAME}_$C.log
  ( cd $V && VERIF_REPO=$WT VERIF_EVIDENCE_DIR=/tmp/seed_evidence_$$ timeout 3000 ./vcheck $C --tier ${TIER:-quick} > $L 2>&1 ); RC=$?
  NV=$(grep -c '^VIOLATION property=' $L)
  RES="$RES $C:rc=$RC:violations=$NV"
done
git -C /repo worktree remove --force $WT
rm -rf /tmp/seed_evidence_$$
echo "$NAME$RES"
