"""Checks of the A* search (C01, C02, C09, C10, C12, C16): Engine A explores every path of parse_sentence symbolically and
discharges the assertions with z3; Engine N replays every counterexample and validates path witnesses through the real
depccg.parsing.run / retrieve_tree on the native float build."""
import concurrent.futures
import fnmatch
import json
import os
import time

from lib import engine_a as A
from lib import native
from lib import framework
from oracles import cky

VERIF = framework.VERIF

# ---------------------------------------------------------------- grammars (tables served by the scaffold callback)
# binary: (x, y, result, head_is_left, label) ; unary: (x, result, label)


def G1(head_left=True):
    """attachment ambiguity over three words A B C: (A B) C  or  A (B C)"""
    h = 1 if head_left else 0
    return dict(name='G1' if head_left else 'G2', ncats=6, T=3, binary=[(0, 1, 3, h, 'ab'), (3, 2, 5, h, 'yc'), (1, 2, 4, h, 'bc'), (0, 4, 5, h, 'az')],
                unary=[], roots=[5], uniform=True)


def G3(compete=True):
    """unary chain A -> U1 -> U2 (acyclic, length 2), U2 B -> R ; optionally a competing lexical tag C with C B -> R, and A B -> R"""
    b = [(3, 1, 4, 1, 'ub'), (0, 1, 4, 1, 'ab'), (2, 1, 4, 1, 'vb')]
    if compete:
        b.append((5, 1, 4, 1, 'cb'))
    return dict(name='G3c' if compete else 'G3', ncats=6, T=2, binary=b, unary=[(0, 2, 'u1'), (2, 3, 'u2'), (1, 5, 'u3')], roots=[4], uniform=True)


def G4(unary=False):
    """several results for one pair: different labels, a duplicate category, both head directions (not head-uniform)"""
    b = [(0, 1, 2, 1, 'r1'), (0, 1, 2, 1, 'r2'), (0, 1, 2, 0, 'r3'), (0, 1, 3, 0, 'r4'), (1, 0, 2, 0, 'r5'), (0, 0, 3, 1, 'r6')]
    u = [(1, 4, 'ux'), (4, 1, 'uy')][:1] if unary else []
    if unary:
        b += [(0, 4, 2, 0, 'r7'), (0, 4, 2, 1, 'r8')]
    return dict(name='G4u' if unary else 'G4', ncats=5, T=2, binary=b, unary=u, roots=[2, 3], uniform=False)


def G5(head_left=True):
    """two tags per word, two root categories"""
    h = 1 if head_left else 0
    return dict(name='G5' if head_left else 'G5r', ncats=4, T=2, binary=[(0, 0, 2, h, 'p'), (0, 1, 2, h, 'q'), (1, 0, 3, h, 'r'), (1, 1, 3, h, 's'), (0, 1, 3, h, 't'),
                                                                        (2, 0, 2, h, 'u'), (2, 1, 3, h, 'v'), (3, 0, 3, h, 'w'), (0, 2, 2, h, 'x'), (1, 3, 3, h, 'y'), (0, 3, 2, h, 'z')],
                unary=[], roots=[2, 3], uniform=True)


def G9(head_left=False):
    """tag ambiguity on the middle word of three (A {B1,B2} C) with attachment ambiguity: 3 derivations; cats A=0 B1=1 B2=2 C=3 | X=4 Y=5 S=6"""
    h = 1 if head_left else 0
    return dict(name='G9' if head_left else 'G9r', ncats=7, T=4, binary=[(0, 2, 4, h, 'ab2'), (0, 1, 4, h, 'ab1'), (4, 3, 6, h, 'xc'), (1, 3, 5, h, 'bc'), (0, 5, 6, h, 'ay')],
                unary=[], roots=[6], uniform=True)


def G9_slice(head_left=False):
    """(below, eq) for G9: word 0 admits A, word 1 admits B1 and B2, word 2 admits C (pruning 2: the second tag of words 0 and 2 is a dead end, held at -20);
    the lexical scores of A and C are held at 0 and the dependency cells no derivation of the grammar uses at -3 (they still enter the per-token bound);
    symbolic: both tag scores of word 1 and every dependency cell a derivation uses"""
    below = [(0, 3), (0, 1), (0, 2), (1, 0), (1, 3), (2, 0), (2, 1), (2, 2)]
    eq = [('t', 0, 0, 0), ('t', 2, 3, 0), ('t', 0, 3, -20), ('t', 0, 1, -21), ('t', 0, 2, -22), ('t', 1, 0, -20), ('t', 1, 3, -21), ('t', 2, 0, -20), ('t', 2, 1, -21), ('t', 2, 2, -22)]
    used = {(0, 2), (0, 3), (1, 3), (2, 0)} if not head_left else {(1, 1), (2, 1), (2, 2), (0, 0)}
    eq += [('d', i, h, -3) for i in range(3) for h in range(4) if (i, h) not in used]
    return below, eq


def G7(head_left=False):
    """a unary step over a two-word span whose head is not its first word, then attached further (n = 3)"""
    h = 1 if head_left else 0
    return dict(name='G7' if not head_left else 'G7l', ncats=7, T=3, binary=[(0, 1, 3, h, 'ab'), (4, 2, 5, h, 'zc'), (3, 2, 5, h, 'yc'), (1, 2, 6, h, 'bc'), (0, 6, 5, h, 'aw')],
                unary=[(3, 4, 'u')], roots=[5], uniform=True)


def G7x(head_left=False):
    """as G7 without the direct rule X C -> S, plus A Y -> S: the unary result Y over the first two words is needed by the only derivation through it,
    and a Y filed at any other span would combine with the first word"""
    h = 1 if head_left else 0
    return dict(name='G7x' if not head_left else 'G7xl', ncats=7, T=3, binary=[(0, 1, 3, h, 'ab'), (4, 2, 5, h, 'zc'), (1, 2, 6, h, 'bc'), (0, 6, 5, h, 'aw'), (0, 4, 5, h, 'ay')],
                unary=[(3, 4, 'u')], roots=[5], uniform=True)


def GT():
    """two non-root categories P, Q derived from the same children by two rules (every derivation through P ties exactly with its twin
    through Q), and a rule that creates Q alone from another pair: the order in which a batch creates P and Q depends on its history"""
    return dict(name='GT', ncats=6, T=3, binary=[(0, 1, 3, 1, 'ab1'), (0, 1, 4, 1, 'ab2'), (1, 0, 4, 1, 'ba'), (3, 2, 5, 1, 'pc'), (4, 2, 5, 1, 'qc')],
                unary=[], roots=[5], uniform=True)


def G8():
    """the full-span category is not a root but has a unary rule into the root set: a multi-word sentence must fail"""
    return dict(name='G8', ncats=5, T=2, binary=[(0, 1, 2, 1, 'ab'), (1, 0, 2, 1, 'ba'), (0, 0, 4, 1, 'aa')], unary=[(2, 3, 'u'), (0, 3, 'v')], roots=[3, 4], uniform=True)


def G6():
    """one word, four tags, unary rules (two results with different labels for tag 0), several roots (n = 1 obligations)"""
    return dict(name='G6', ncats=7, T=4, binary=[], unary=[(0, 4, 'a'), (0, 6, 'a2'), (1, 4, 'b'), (4, 5, 'c'), (2, 6, 'd')], roots=[3, 5, 6, 1], uniform=True)


def real_grammar(lang):
    """tables obtained by running the real rule functions (and a shipped-style unary table) over a small lexicon to closure"""
    from engines.pysym import hook
    hook.install(instrument=False)
    from depccg.cat import Category
    from depccg.grammar import en, ja
    if lang == 'en_punct':
        lex = ['NP', ',', 'LQU', 'N']
        unary = {Category.parse('N'): [Category.parse('NP')]}
        g, roots = en, ['NP', 'N']
    elif lang == 'en':
        lex = ['NP', 'N', '(S[dcl]\\NP)/NP', 'NP[nb]/N']
        unary = {Category.parse('N'): [Category.parse('NP')]}
        g, roots = en, ['S[dcl]', 'NP']
    else:
        lex = ['NP[case=nc,mod=nm,fin=f]', 'NP[case=ga,mod=nm,fin=f]\\NP[case=nc,mod=nm,fin=f]', 'S[mod=nm,form=base,fin=f]\\NP[case=ga,mod=nm,fin=f]',
               'S[mod=adn,form=base,fin=f]\\NP[case=ga,mod=nm,fin=f]']
        unary = {Category.parse('S[mod=adn,form=base,fin=f]'): [Category.parse('NP[case=nc,mod=X1,fin=X2]/NP[case=nc,mod=X1,fin=X2]')]}
        g, roots = ja, ['S[mod=nm,form=base,fin=f]', 'NP[case=nc,mod=nm,fin=f]']
    cats = [Category.parse(c) for c in lex]
    for r in roots:
        c = Category.parse(r)
        if c not in cats:
            cats.append(c)
    binary, un = [], []
    done_b, done_u = set(), set()
    changed = True
    rounds = 0
    while changed and rounds < 3:
        changed = False
        rounds += 1
        for i, x in enumerate(list(cats)):
            if i not in done_u:
                done_u.add(i)
                for k, r in enumerate(g.apply_unary_rules(x, unary)):
                    if r.cat not in cats:
                        cats.append(r.cat)
                        changed = True
                    un.append((i, cats.index(r.cat), 'u%d' % k))
        for i, x in enumerate(list(cats)):
            for j, y in enumerate(list(cats)):
                if (i, j) in done_b or len(cats) > 40:
                    continue
                done_b.add((i, j))
                for k, r in enumerate(g.apply_binary_rules(x, y)):
                    if r.cat not in cats:
                        if len(str(r.cat)) > 60:
                            continue
                        cats.append(r.cat)
                        changed = True
                    binary.append((i, j, cats.index(r.cat), 1 if r.head_is_left else 0, (r.op_string + str(k)).replace(' ', '_')))
    rootids = [cats.index(Category.parse(r)) for r in roots]
    return dict(name='G_' + lang, ncats=len(cats), T=len(lex), binary=binary, unary=un, roots=rootids, uniform=True, cats=[str(c) for c in cats])


# ---------------------------------------------------------------- obligations

class SOb:
    def __init__(self, name, g, n, below=(), max_seconds=240, **cfg):
        self.name, self.g, self.n, self.below, self.cfg, self.max_seconds = name, g, n, list(below), cfg, max_seconds

    def spec(self, checks, records, record_every=1):
        c = self.cfg
        return A.spec_text(self.n, self.g['T'], self.g['binary'], self.g['unary'], self.g['roots'], nbest=c.get('nbest', 1),
                           pruning=c.get('pruning', self.g['T']), use_beta=c.get('use_beta', False), beta=c.get('beta', 0.5),
                           max_step=c.get('max_step', 100000), penalty=c.get('penalty', 'sym'), below=self.below, checks=checks, flat=c.get('flat', ()), lo=c.get('lo'), eq=c.get('eq', ()),
                           records=records, record_every=record_every)

    def job(self, model):
        n, T = self.n, self.g['T']
        tag = [[model['t%d_%d' % (i, c)] for c in range(T)] for i in range(n)]
        dep = [[model['d%d_%d' % (i, h)] for h in range(n + 1)] for i in range(n)]
        c = self.cfg
        pen = model.get('pen', 0) if c.get('penalty', 'sym') == 'sym' else float(c['penalty'])
        return dict(ncats=self.g['ncats'], T=T, binary=self.g['binary'], unary=self.g['unary'], roots=self.g['roots'],
                    sentences=[dict(tag=tag, dep=dep)],
                    config=dict(unary_penalty=pen, beta=c.get('beta', 0.5), use_beta=c.get('use_beta', False), pruning_size=c.get('pruning', T),
                                nbest=c.get('nbest', 1), max_step=c.get('max_step', 100000)))


def one_tag(n, T, tags=None):
    """word i may use tag tags[i] only (others constrained below: a partition piece of the matrix space)"""
    tags = tags or list(range(n))
    return [(i, c) for i in range(n) for c in range(T) if c != tags[i]]


def model_ok(model):
    return all(abs(v) < 2 ** 22 for v in model.values())


def parse_model(m):
    out = {}
    for k, v in m.items():
        out[k] = v
    return out


def run_search_check(pid, tier, obligations, prefixes, functions, bounds, outside, assumptions, records_for_validation=True, record_every=None):
    """prefixes: violation-kind prefixes this property owns (e.g. ('C01.',))"""
    t0 = time.time()
    seed = int(os.environ.get('VERIF_SEED', '0') or 0)
    harness_errors = []
    try:
        ba = A.Build()
        bn = native.Build()
    except RuntimeError as e:
        print('HARNESS-ERROR: %s' % e)
        return framework.EXIT_HARNESS
    results = []
    try:
        checks = 'omsnb'
        pool = concurrent.futures.ThreadPoolExecutor(A.NPROC)
        # one budget for the whole exploration of the tier: when a change makes the path count explode, every obligation runs into its own
        # cap and the sum of the caps is not a usable running time; later obligations get what is left (at least a short slice each)
        budget = float(os.environ.get('VERIF_BUDGET_S', 900 if tier == 'quick' else 3000))
        for ob in sorted(obligations, key=lambda o: o.max_seconds):
            every = record_every or (1 if tier == 'thorough' else 1)
            left = budget - (time.time() - t0)
            r = A.run_obligation(ba, ob.name, ob.spec(checks, records_for_validation, every), max_seconds=max(20.0, min(ob.max_seconds, left)), pool=pool, dump_every=(97 if tier == 'quick' else 41))
            r['ob'] = ob
            results.append(r)
        pool.shutdown()
        xc = A.cross_check(ba, limit=(24 if tier == 'quick' else 120))
        if xc['disagreements']:
            harness_errors.append('second-solver disagreement on %d dumped path queries: %r' % (len(xc['disagreements']), xc['disagreements'][:2]))
        # ---- replay counterexamples of this property on the native build (real float, real finalizer)
        cex = []
        for r in results:
            seen = {}
            for v in r['violations']:
                if not v['kind'].startswith(tuple(prefixes)):
                    continue
                k = seen.get(v['kind'], 0)
                seen[v['kind']] = k + 1
                if k < 2:
                    cex.append((r, v))
            harness_errors += ['%s: %s' % (r['name'], e) for e in r['errors']]
            if r['unsupported']:
                harness_errors.append('%s: %d paths used an operation the symbolic scalar does not model' % (r['name'], r['unsupported']))
            if r['unknown']:
                harness_errors.append('%s: solver answered unknown %d times' % (r['name'], r['unknown']))
        jobs = [r['ob'].job(v['model']) for r, v in cex]
        nat = bn.run(jobs) if jobs else []
        violations = []
        kf = [k for k in framework.known_findings(pid) if k.get('status') == 'open']
        known_hits = {}
        for (r, v), job, res in zip(cex, jobs, nat):
            if res.get('error'):
                harness_errors.append('%s: native replay raised %s' % (r['name'], res['error']))
                continue
            kinds = cky.check_run(job, 0, res)
            own = [k for k in kinds if k.startswith(tuple(prefixes))]
            if not own:
                harness_errors.append('%s: counterexample %s did not reproduce on the native build (numeric check gives %s) model=%s' % (r['name'], v['kind'], kinds, v['model']))
                continue
            rec = dict(engine='A', obligation=r['name'], signature=v['kind'], reproduced_as=own, detail=v['detail'], job=job,
                       native=dict(trees=res['sentences'][0], pops=res['pops'][0][:30]))
            hit = None
            for k in kf:
                if fnmatch.fnmatchcase(v['kind'], k['signature']) and fnmatch.fnmatchcase(r['name'], k.get('obligation', '*')):
                    hit = k
            if hit:
                known_hits.setdefault(hit['id'], []).append(rec)
            else:
                violations.append(rec)
        # ---- path witnesses through the real Python layer: the tree delivered by retrieve_tree equals the search's tree and
        #      satisfies the numeric statement of the properties
        validated = 0
        nat_viol = {}
        sample_records = []
        if records_for_validation:
            items = []
            for r in results:
                recs = r['records']
                for rec in recs:
                    items.append((r, rec))
            cap = 160000 if tier == 'quick' else 400000       # evenly thinned when a change makes the number of paths explode
            if len(items) > cap:
                step = -(-len(items) // cap)
                items = items[::step]
            CH = 400
            chunks = [items[i:i + CH] for i in range(0, len(items), CH)]

            def run_chunk(chunk):
                js = [r['ob'].job(rec['model']) for r, rec in chunk]
                return js, bn.run(js, timeout=1200)
            with concurrent.futures.ThreadPoolExecutor(A.NPROC) as ex:
                outs = list(ex.map(run_chunk, chunks))
            for chunk, (js, ress) in zip(chunks, outs):
                for (r, rec), job, res in zip(chunk, js, ress):
                    if res.get('error'):
                        if 'C02.' in prefixes:
                            nat_viol.setdefault((r['name'], 'C02.run-raises-on-valid-input'), dict(engine='N', obligation=r['name'], signature='C02.run-raises-on-valid-input', job=job, detail=res['error'][:400]))
                        else:
                            harness_errors.append('%s: native run of a path witness raised %s' % (r['name'], res['error']))
                        continue
                    if not model_ok(rec['model']):
                        continue
                    kinds = cky.check_run(job, 0, res)
                    trees = res['sentences'][0]
                    sym_keys = [t['tree'] for t in rec['trees']]
                    nat_keys = [t['key'] for t in trees if not t['placeholder']]
                    own = [k for k in kinds if k.startswith(tuple(prefixes))]
                    if own:
                        for k in own:
                            nat_viol.setdefault((r['name'], k), dict(engine='N', obligation=r['name'], signature=k, job=job, native=dict(trees=trees, pops=res['pops'][0][:30]), symbolic_trees=sym_keys))
                        continue
                    if rec['status'] == 0 and sym_keys != nat_keys and not kinds:
                        # the finalizer delivered a different tree than the back-pointers describe
                        k = 'C02.delivered-tree-differs-from-search-record' if 'C02.' in prefixes else None
                        if k:
                            nat_viol.setdefault((r['name'], k), dict(engine='N', obligation=r['name'], signature=k, job=job, native=dict(trees=trees), symbolic_trees=sym_keys))
                            continue
                        if not any(p in ('C12.', 'C09.') for p in prefixes):
                            pass
                    if len(res['pops'][0]) != rec['pops'] and not kinds:
                        harness_errors.append('%s: native run pops %d items, symbolic path %d (model %s)' % (r['name'], len(res['pops'][0]), rec['pops'], rec['model']))
                        continue
                    validated += 1
                    if len(sample_records) < 8:
                        sample_records.append(dict(obligation=r['name'], model=rec['model'], trees=sym_keys, pops=rec['pops']))
        for (name, k), rec in nat_viol.items():
            hit = None
            for f in kf:
                if fnmatch.fnmatchcase(k, f['signature']) and fnmatch.fnmatchcase(name, f.get('obligation', '*')):
                    hit = f
            if hit:
                known_hits.setdefault(hit['id'], []).append(rec)
            else:
                violations.append(rec)
    finally:
        ba.close()
        bn.close()
    lines = []
    for k in kf:
        if k['id'] in known_hits:
            lines.append('KNOWN-FINDING: property=%s %s' % (pid, k['text']))
    rdir = os.path.join(VERIF, 'replays', pid)
    vio_lines, seen = [], set()
    for v in violations:
        if v['signature'] in seen or len(vio_lines) >= 6:
            continue
        seen.add(v['signature'])
        os.makedirs(rdir, exist_ok=True)
        path = os.path.join(rdir, 'cex_%03d.json' % len(vio_lines))
        json.dump(dict(property=pid, **v), open(path, 'w'), indent=1)
        vio_lines.append('VIOLATION property=%s replay=%s' % (pid, path))
        print('  counterexample: %s %s %s' % (v['obligation'], v['signature'], str(v.get('detail', ''))[:300]))
    paths = sum(r['paths'] for r in results)
    exhaustive = all(r['exhaustive'] for r in results) and not harness_errors
    cov = dict(states=paths, transitions=sum(r['queries'] for r in results), traces_validated_against_impl=validated + len(cex),
               evaluations=paths, distinct_nontrivial=paths,
               rule='one evaluation = one feasible path of parse_sentence (a region of score space with its own order of agenda pops) on which every assertion was discharged by z3; regions are pairwise distinct path conditions',
               obligations=len(results), discharged=sum(1 for r in results if r['exhaustive']), inconclusive=[r['name'] for r in results if not r['exhaustive']],
               exhaustive=exhaustive, solver_queries=sum(r['queries'] for r in results), solver_s=round(sum(r['solver_s'] for r in results), 2),
               reachability=dict(parsed=sum(r['parsed'] for r in results), failed=sum(r['failed'] for r in results), with_unary=sum(r['with_unary'] for r in results),
                                 full_nbest=sum(r['full_nbest'] for r in results), beam_cut=sum(r['beam_cut'] for r in results), step_budget_hit=sum(r['step_budget_hit'] for r in results)),
               functions_encoded=functions, bounds=bounds, outside_bounds=outside,
               per_obligation=[dict(name=r['name'], paths=r['paths'], queries=r['queries'], solver_s=r['solver_s'], wall_s=r['wall_s'], exhaustive=r['exhaustive'],
                                    kinds={k: v for k, v in r['kinds'].items()}) for r in results],
               samples=sample_records or [dict(obligation=r['name']) for r in results[:3]],
               second_solver_cross_check=xc, known_findings_hit={k: len(v) for k, v in known_hits.items()}, harness_errors=harness_errors[:20],
               other_property_kinds_seen=sorted({k for r in results for k in r['kinds'] if not k.startswith(tuple(prefixes))}),
               engine='Engine A (parsing.h compiled with float := symbolic linear scalar, libz3 4.8.12) + Engine N (native float build, translated parsing.pyx)')
    ev = dict(property_id=pid, tier=tier, seed=seed, level='model_checking', coverage=cov, assumptions=assumptions, wall_s=round(time.time() - t0, 2), violations=len(vio_lines))
    EVD = os.environ.get('VERIF_EVIDENCE_DIR') or os.path.join(VERIF, 'evidence')
    os.makedirs(EVD, exist_ok=True)
    json.dump(ev, open(os.path.join(EVD, pid + '.json'), 'w'), indent=1)
    for l in lines:
        print(l)
    print('%s %s: %d obligations, %d paths, %d solver queries (%.1fs solver), %d native validations, exhaustive=%s, wall %.1fs'
          % (pid, tier, len(results), paths, cov['solver_queries'], cov['solver_s'], cov['traces_validated_against_impl'], exhaustive, time.time() - t0))
    if vio_lines:
        for l in vio_lines:
            print(l)
        return framework.EXIT_VIOLATION
    if harness_errors:
        for h in harness_errors[:10]:
            print('HARNESS-ERROR: ' + h[:600])
        return framework.EXIT_HARNESS
    return framework.EXIT_OK


def replay(spec):
    """./vcheck replay <file> for a counterexample of the search checks: runs the recorded job on a fresh native build of the
    current /repo through the real depccg.parsing.run and re-evaluates the numeric statement of the properties"""
    pid = spec['property']
    bn = native.Build()
    try:
        res = bn.run([spec['job']])[0]
    finally:
        bn.close()
    if res.get('error'):
        print('native run raised: ' + res['error'])
        kinds = ['C02.run-raises-on-valid-input']
    else:
        kinds = cky.check_run(spec['job'], 0, res)
        print('trees: %s' % [(t['key'], t['score']) for t in res['sentences'][0]])
    print('violated: %s' % kinds)
    own = [k for k in kinds if k.startswith(pid + '.') or (pid == 'C02' and k.startswith('C16.leaf'))]
    if own:
        print('VIOLATION property=%s replay=%s' % (pid, spec.get('_path', '?')))
        return 1
    print('replay: property holds on this input')
    return 0
