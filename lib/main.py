import argparse
import json
import os
import sys

VERIF = os.path.dirname(os.path.dirname(os.path.abspath(__file__)))
sys.path.insert(0, VERIF)
sys.setrecursionlimit(10000)


def main():
    a = sys.argv[1:]
    if not a:
        print('usage: vcheck <property> --tier quick|thorough | replay <file>')
        return 2
    from lib import framework
    if a[0] == 'selftest':
        from lib import selftest
        return selftest.main()
    if a[0] == 'replay-batch':
        framework.run_replay_batch(a[1])
        return 0
    if a[0] == 'replay':
        spec = json.load(open(a[1]))
        mod = framework.load_check(spec['property']) if False else None
        if spec.get('engine') in ('A', 'N'):
            from lib import search
            spec['_path'] = a[1]
            return search.replay(spec)
        if spec.get('engine') == 'ground':
            print(json.dumps(spec.get('bad'), ensure_ascii=False)[:2000])
            print('ground finding recorded by the check; re-run the check to re-evaluate it')
            return 1
        out = framework.replay_batch(spec['property'], [dict(harness=spec['harness'], params=spec['params'], draws=spec['draws'])])
        print(json.dumps(out[0], ensure_ascii=False))
        if out[0] is True:
            print('replay: property holds on this input')
            return 0
        print('VIOLATION property=%s replay=%s' % (spec['property'], a[1]))
        return 1
    p = argparse.ArgumentParser()
    p.add_argument('property')
    p.add_argument('--tier', default=os.environ.get('VERIF_TIER', 'quick'), choices=['quick', 'thorough'])
    ns = p.parse_args(a)
    pid = ns.property.upper()
    mod = None
    from engines.pysym import hook
    hook.install(instrument=True)
    mod = framework.load_check(pid)
    if hasattr(mod, 'main'):
        return mod.main(ns.tier)
    return framework.run_check(pid, ns.tier, mod)


if __name__ == '__main__':
    try:
        rc = main()
    except SystemExit:
        raise
    except BaseException as e:      # a crash of the machinery is a harness error (3), never a verdict (0/1)
        import traceback
        traceback.print_exc()
        print('HARNESS-ERROR: %s: %s' % (type(e).__name__, e))
        rc = 3
    sys.exit(rc)
