"""Environment shared by the Engine P harnesses: symbolic runs read 'files' from memory (the readers' `open` is replaced),
concrete replays write real temporary files and use the real lxml/json/numpy."""
import atexit
import os
import shutil
import tempfile

SYMBOLIC = os.environ.get('VERIF_CONCRETE') != '1'
FILES = {}
_tmp = [None]


def write_file(name, lines):
    """lines: list of str without trailing newline"""
    if SYMBOLIC:
        FILES[name] = [l + '\n' for l in lines]
        return name
    if _tmp[0] is None:
        _tmp[0] = tempfile.mkdtemp(prefix='verif-files-')
        atexit.register(shutil.rmtree, _tmp[0], True)
    p = os.path.join(_tmp[0], name)
    with open(p, 'w', encoding='utf-8', newline='\n') as f:
        for l in lines:
            f.write(l + '\n')
    return p


def fake_open(name, *a, **k):
    if name not in FILES:
        raise FileNotFoundError(name)
    return iter(list(FILES[name]))


def install_open(*modules):
    if SYMBOLIC:
        for m in modules:
            m.__dict__['open'] = fake_open


def xml_file(name, root):
    """make an XML document readable by the readers: symbolic runs keep the element tree, replays write real XML"""
    if SYMBOLIC:
        from engines.pysym import stubs
        stubs.XML_FILES[name] = root
        return name
    from lxml import etree
    if _tmp[0] is None:
        _tmp[0] = tempfile.mkdtemp(prefix='verif-files-')
        atexit.register(shutil.rmtree, _tmp[0], True)
    p = os.path.join(_tmp[0], name)
    with open(p, 'wb') as f:
        f.write(etree.tostring(root, encoding='utf-8', pretty_print=True))
    return p


def fresh_state():
    """module-level state of the code under test as right after import (a fresh process): symbolic runs put back what the import hook
    remembered; concrete replays remember the containers of every depccg module at the first call (call it before touching the code)"""
    import sys
    from engines.pysym import state
    if not SYMBOLIC:
        for name, m in list(sys.modules.items()):
            if (name == 'depccg' or name.startswith('depccg.')) and m is not None:
                state.register(m)
    state.restore()

