#!/bin/bash
# usage: seed_eval.sh <worktree id> <seed name> <check> [<check>...]
# confirms a seeded change in its scratch worktree (tests pass, demo fails with / passes without), stores it under seeded/, then runs the checks on /repo with the change applied
ID=$1; NAME=$2; shift 2
WT=/tmp/wt/$ID
OUT=/verif/seeded/$NAME
mkdir -p $OUT
cd $WT || exit 2
git checkout -q -- depccg
git apply --check seed/patch.diff || { echo "PATCH DOES NOT APPLY in worktree"; exit 2; }
git apply seed/patch.diff
T=$(/venv/bin/python -m pytest -q -p no:cacheprovider --continue-on-collection-errors 2>&1 | tail -1)
( cd $WT && timeout 900 sh seed/run.sh > /tmp/seed_demo_with.log 2>&1 ); RC_WITH=$?
git checkout -q -- depccg
( cd $WT && timeout 900 sh seed/run.sh > /tmp/seed_demo_without.log 2>&1 ); RC_WITHOUT=$?
echo "tests with change: $T ; demo rc with=$RC_WITH without=$RC_WITHOUT"
cp seed/patch.diff $OUT/; cp seed/notes.md $OUT/ 2>/dev/null; for f in seed/demo* seed/run.sh seed/_stubs.py; do [ -f $f ] && cp $f $OUT/; done
cd /repo && git apply --check $OUT/patch.diff || { echo "PATCH DOES NOT APPLY to current /repo HEAD"; APPLY=no; }
RES=""
if [ "$APPLY" != "no" ]; then
  git -C /repo apply $OUT/patch.diff
  for C in "$@"; do
    cd /verif && timeout 2400 ./vcheck $C --tier quick > /tmp/seed_check_$C.log 2>&1; RC=$?
    RES="$RES $C:rc=$RC"
    echo "--- $C rc=$RC"; grep -m3 "counterexample\|VIOLATION" /tmp/seed_check_$C.log | cut -c1-300
  done
  git -C /repo checkout -- .
fi
python3 - "$ID" "$NAME" "$T" "$RC_WITH" "$RC_WITHOUT" "$RES" <<'PY'
import json, sys
i, name, t, a, b, res = sys.argv[1:7]
json.dump(dict(breaks_property=i, name=name, tests_with_change=t, demo_rc_with_change=int(a), demo_rc_without_change=int(b),
               checks_run=res.strip(), confirmed=(t.startswith('3583 passed') and int(a) != 0 and int(b) == 0)), open('/verif/seeded/%s/meta.json' % name, 'w'), indent=1)
print(open('/verif/seeded/%s/meta.json' % name).read())
PY
