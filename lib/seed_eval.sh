#!/bin/bash
# usage: seed_eval.sh <worktree id> <seed name> <check> [<check>...]
# Confirms a seeded change in its scratch worktree (brought to /repo's HEAD): suite passes, demonstration fails with / passes
# without the change; stores it under seeded/<name>/; then runs the named checks with VERIF_REPO pointing at the patched worktree
# (equivalent to `git -C /repo apply` + run + `git -C /repo checkout -- .`, without disturbing /repo).
ID=$1; NAME=$2; shift 2
WT=${WTROOT:-/tmp/wt}/$ID
OUT=/verif/seeded/$NAME
mkdir -p $OUT
cd $WT || exit 2
git checkout -q -- depccg
git checkout -q --detach $(git -C /repo rev-parse HEAD)
git apply --check seed/patch.diff || { echo "PATCH DOES NOT APPLY to current HEAD"; exit 2; }
( cd $WT && timeout 900 sh seed/run.sh > /tmp/seed_demo_without_$ID.log 2>&1 ); RC_WITHOUT=$?
git apply seed/patch.diff
T=$(/venv/bin/python -m pytest -q -p no:cacheprovider --continue-on-collection-errors 2>&1 | tail -1)
( cd $WT && timeout 900 sh seed/run.sh > /tmp/seed_demo_with_$ID.log 2>&1 ); RC_WITH=$?
echo "tests with change: $T ; demo rc with=$RC_WITH without=$RC_WITHOUT"
cp seed/patch.diff $OUT/; cp seed/notes.md $OUT/ 2>/dev/null; for f in seed/demo* seed/run.sh seed/_stubs.py; do [ -f $f ] && cp $f $OUT/; done
RES=""
for C in "$@"; do
  cd /verif && VERIF_REPO=$WT VERIF_EVIDENCE_DIR=/tmp/seed_evidence timeout 2400 ./vcheck $C --tier quick > /tmp/seed_check_${ID}_$C.log 2>&1; RC=$?
  NV=$(grep -c '^VIOLATION property=' /tmp/seed_check_${ID}_$C.log)
  [ "$RC" = 1 ] && [ "$NV" = 0 ] && RC="1-without-VIOLATION-line(harness-crash)"
  RES="$RES $C:rc=$RC"
  echo "--- $C rc=$RC"; grep -m3 "counterexample\|VIOLATION\|HARNESS" /tmp/seed_check_${ID}_$C.log | cut -c1-300
done
cd $WT && git checkout -q -- depccg
python3 - "$ID" "$NAME" "$T" "$RC_WITH" "$RC_WITHOUT" "$RES" <<'PY'
import json, sys
i, name, t, a, b, res = sys.argv[1:7]
json.dump(dict(breaks_property=i, name=name, tests_with_change=t, demo_rc_with_change=int(a), demo_rc_without_change=int(b),
               checks_run_with_change_applied=res.strip(), confirmed=(t.startswith('3583 passed') and int(a) != 0 and int(b) == 0),
               how='scratch worktree at /repo HEAD + patch; suite; seed/run.sh with and without the patch; ./vcheck <check> --tier quick with VERIF_REPO=<patched worktree>'),
          open('/verif/seeded/%s/meta.json' % name, 'w'), indent=1)
print(open('/verif/seeded/%s/meta.json' % name).read())
PY
