#!/bin/bash
# usage: benign_eval.sh <worktree id> <name> <check> [<check>...]
# A behaviour-preserving refactoring delivered in $WTROOT/<id>/seed/patch.diff: suite must pass with it; every named check is run
# against the patched worktree (VERIF_REPO) and must exit 0 (no alarm) - exit 3 (refusal) and exit 1 (alarm) are both recorded.
ID=$1; NAME=$2; shift 2
WT=${WTROOT:-/tmp/wtb}/$ID
OUT=/verif/benign/$NAME
mkdir -p $OUT
cd $WT || exit 2
git checkout -q -- depccg
git apply --check seed/patch.diff || { echo "PATCH DOES NOT APPLY"; exit 2; }
git apply seed/patch.diff
T=$(/venv/bin/python -m pytest -q -p no:cacheprovider --continue-on-collection-errors 2>&1 | tail -1)
cp seed/patch.diff $OUT/; cp seed/notes.md $OUT/ 2>/dev/null
RES=""
for C in "$@"; do
  ( cd /verif && VERIF_REPO=$WT VERIF_EVIDENCE_DIR=/tmp/benign_evidence timeout 3000 ./vcheck $C --tier quick > /tmp/benign_${ID}_$C.log 2>&1 ); RC=$?
  NV=$(grep -c '^VIOLATION property=' /tmp/benign_${ID}_$C.log)
  RES="$RES $C:rc=$RC:violations=$NV"
  echo "--- $C rc=$RC"; grep -m3 "counterexample\|VIOLATION\|HARNESS" /tmp/benign_${ID}_$C.log | cut -c1-300
done
cd $WT && git checkout -q -- depccg
python3 - "$NAME" "$T" "$RES" <<'PY'
import json, sys
name, t, res = sys.argv[1:4]
json.dump(dict(name=name, kind='behaviour-preserving refactoring (no property is broken)', tests_with_change=t, checks_run_with_change_applied=res.strip(),
               lines_changed=sum(1 for l in open('/verif/benign/%s/patch.diff' % name) if l[:1] in '+-' and l[:3] not in ('+++', '---'))),
          open('/verif/benign/%s/meta.json' % name, 'w'), indent=1)
print(open('/verif/benign/%s/meta.json' % name).read())
PY
