"""Builders of category values with symbolic strings (used by C03-C06, C13, C14)."""
from engines.pysym.explore import Alpha

DELIMS = '[]()/\\|<>'
# characters allowed inside atoms/features of *well-formed* category text (survive Category.parse tokenisation)
CATCHAR = Alpha([(0x21, 0x7E), (0xA1, 0xFF), (0x3041, 0x30FF), (0x4E00, 0x9FFF)], exclude=DELIMS, name='catchar')
ANYCHAR = Alpha([(0x20, 0x7E), (0xA1, 0xFF), (0x3041, 0x30FF), (0x4E00, 0x9FFF)], name='anychar')
FEATCHAR = CATCHAR.minus(',', 'featchar')
TERNCHAR = CATCHAR.minus(',=', 'ternchar')


# "plain" characters: no ASCII punctuation at all (letters, digits, Latin-1 letters, kana, CJK): used for the leaves that are
# not the focus of an obligation, so that the special-character case analysis of the code does not multiply across leaves
PLAIN = Alpha([(0x30, 0x39), (0x41, 0x5A), (0x61, 0x7A), (0xC0, 0xFF), (0x3041, 0x30FF), (0x4E00, 0x9FFF)], exclude=[0xD7, 0xF7], name='plain')


def shapes(n):
    """all binary tree shapes with exactly n leaves: 'a' or (l, r)"""
    if n == 1:
        return ['a']
    out = []
    for k in range(1, n):
        for l in shapes(k):
            for r in shapes(n - k):
                out.append((l, r))
    return out


def shapes_upto(n):
    return [s for k in range(1, n + 1) for s in shapes(k)]


def nleaves(s):
    return 1 if s == 'a' else nleaves(s[0]) + nleaves(s[1])


def shape_name(s):
    return 'a' if s == 'a' else '(%s%s)' % (shape_name(s[0]), shape_name(s[1]))


def cats():
    from depccg import cat
    return cat


class Builder:
    """draws the strings of a category of a given shape.
    feat: 'none' | 'unary' | 'mixed' (each leaf: symbolic choice none/unary) | 'ternary'
    """

    def __init__(self, d, prefix, lb=1, lf=1, feat='unary', base_alpha=CATCHAR, feat_alpha=FEATCHAR,
                 slashes='/\\', tern_alpha=TERNCHAR, lk=1, full=None, plain_alpha=PLAIN, keys=None, defaults=('d1', 'd2', 'd3'), fmodes=None, smodes=None):
        self.d, self.p, self.lb, self.lf, self.feat = d, prefix, lb, lf, feat
        self.ba, self.fa, self.ta, self.slashes, self.lk = base_alpha, feat_alpha, tern_alpha, slashes, lk
        self.n = 0
        self.full, self.pa, self.leaf = full, plain_alpha, -1
        self.keys, self.defaults = keys, defaults
        self.fmodes, self.smodes, self.node = fmodes, smodes, -1

    def _name(self, kind):
        self.n += 1
        return '%s.%s%d' % (self.p, kind, self.n)

    def _isfull(self):
        return self.full is None or self.leaf in self.full

    def feature(self):
        C = cats()
        d = self.d
        f = self.feat
        fa = self.fa if self._isfull() else self.pa
        ta = self.ta if self._isfull() else self.pa
        if self.fmodes is not None and f != 'ternary':
            f = {'m': 'mixed', 'u': 'unary', 'n': 'none'}[self.fmodes[self.leaf]]
        if f == 'mixed':
            f = 'unary' if d.boolean(self._name('hasf')) else 'none'
        if f == 'none':
            return C.UnaryFeature()
        if f == 'unary':
            return C.UnaryFeature(d.string(self._name('f'), self.lf, fa))
        if f == 'ternary':
            kvs = []
            for i in range(3):
                if self.keys is None:
                    k = d.string(self._name('k'), self.lk, ta)
                else:
                    k = self.keys[i]
                if self.keys is None or self._isfull() or i == 0:
                    v = d.string(self._name('v'), self.lf, ta)
                else:
                    v = self.defaults[i]      # non-focus leaves: one symbolic value, two fixed ones
                kvs.append((k, v))
            return C.TernaryFeature(*kvs)
        raise ValueError(f)

    def slash(self):
        self.node += 1
        allowed = self.slashes if self.smodes is None else self.smodes[self.node]
        if len(allowed) == 1:
            self._name('s')
            return allowed
        return self.d.char_in(self._name('s'), allowed)

    def build(self, shape):
        C = cats()
        if shape == 'a':
            self.leaf += 1
            return C.Atom(self.d.string(self._name('b'), self.lb, self.ba if self._isfull() else self.pa), self.feature())
        l = self.build(shape[0])
        s = self.slash()
        r = self.build(shape[1])
        return C.Functor(l, s, r)


def leaves(c):
    return [c] if c.is_atomic else leaves(c.left) + leaves(c.right)


def shape_of(c):
    return 'a' if c.is_atomic else (shape_of(c.left), shape_of(c.right))
