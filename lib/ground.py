"""reader for the jsonnet subset used by depccg/models/*.jsonnet (object/array/string literals, `local` lines)"""
import ast
import os
import re

REPO = os.environ.get('VERIF_REPO', '/repo')
MODELS = os.path.join(REPO, 'depccg', 'models')


def load_jsonnet(path):
    s = open(path, encoding='utf-8').read()
    s = re.sub(r'^\s*local .*$', '', s, flags=re.M)
    s = re.sub(r'([{,]\s*)([A-Za-z_][A-Za-z0-9_]*)\s*:', r'\1"\2":', s)
    return ast.literal_eval(s.strip())


def shipped_category_strings():
    """name -> list of category strings, for every shipped file that lists categories"""
    out = {}
    for v in ('en', 'en_rebank', 'ja'):
        p = os.path.join(MODELS, 'targets.%s.jsonnet' % v)
        if os.path.exists(p):
            out['targets.' + v] = list(load_jsonnet(p)['targets'])
        p = os.path.join(MODELS, 'seen_rules.%s.jsonnet' % v)
        if os.path.exists(p):
            out['seen_rules.' + v] = [c for pr in load_jsonnet(p)['seen_rules'] for c in pr]
    for v in ('en', 'ja'):
        p = os.path.join(MODELS, 'unary_rules.%s.jsonnet' % v)
        if os.path.exists(p):
            out['unary_rules.' + v] = [c for pr in load_jsonnet(p)['unary_rules'] for c in pr]
    p = os.path.join(MODELS, 'cat_dict.en.jsonnet')
    if os.path.exists(p):
        cd = load_jsonnet(p)['cat_dict']
        out['cat_dict.en'] = sorted({c for cs in cd.values() for c in cs})
    for f in ('cats.txt', 'cats.ja.txt'):
        p = os.path.join(REPO, 'tests', f)
        if os.path.exists(p):
            out['tests/' + f] = [l.strip().split()[0] for l in open(p, encoding='utf-8') if l.strip()]
    return out
