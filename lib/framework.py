"""Common protocol of the Engine P checks: obligations -> parallel symbolic exploration -> concrete replay of every
counterexample on the uninstrumented modules -> known-finding classification -> evidence + exit code."""
import fnmatch
import importlib
import json
import multiprocessing
import os
import subprocess
import sys
import shutil
import tempfile
import time

VERIF = os.path.dirname(os.path.dirname(os.path.abspath(__file__)))
PY = sys.executable
NPROC = int(os.environ.get('VERIF_NPROC', '16'))
EXIT_OK, EXIT_VIOLATION, EXIT_HARNESS = 0, 1, 3


class Obligation:
    def __init__(self, name, harness, params=None, max_paths=200000, max_seconds=300.0, cost=1.0):
        self.name, self.harness, self.params = name, harness, params or {}
        self.max_paths, self.max_seconds, self.cost = max_paths, max_seconds, cost


def load_check(pid):
    sys.path.insert(0, VERIF) if VERIF not in sys.path else None
    return importlib.import_module('checks.' + pid.lower())


DEADLINE = [None]


def _run_ob(args):
    modname, ob, sample_paths = args
    if DEADLINE[0] is not None and time.time() > DEADLINE[0]:
        return dict(paths=0, aborted=0, decisions=0, violations=[], unsupported=[], samples=[], exhaustive=False, failures_by_sig={}, queries=0, solver_s=0.0,
                    wall_s=0.0, leaks=0, name=ob.name, harness=ob.harness, params=ob.params, skipped='time budget of the tier exhausted before this obligation started')
    from engines.pysym import explore
    try:        # backstop against a runaway path: a worker may not take more than 12 GB of address space
        import resource
        resource.setrlimit(resource.RLIMIT_AS, (12 << 30, 12 << 30))
    except Exception:
        pass
    mod = sys.modules[modname]
    fn = getattr(mod, ob.harness)
    t0 = time.time()
    try:
        r = explore.explore(lambda d: fn(d, **ob.params), max_paths=ob.max_paths, max_seconds=ob.max_seconds,
                            sample_paths=sample_paths)
    except BaseException as e:   # engine failure: reported as harness error
        import traceback
        r = dict(paths=0, aborted=0, decisions=0, violations=[], unsupported=['engine crash: %r\n%s' % (e, traceback.format_exc()[-1500:])],
                 samples=[], exhaustive=False, failures_by_sig={}, queries=0, solver_s=0.0, wall_s=time.time() - t0, leaks=0)
    r['name'] = ob.name
    r['harness'] = ob.harness
    r['params'] = ob.params
    return r


def known_findings(pid):
    p = os.path.join(VERIF, 'known_findings.jsonl')
    out = []
    if os.path.exists(p):
        for l in open(p):
            l = l.strip()
            if l and not l.startswith('#') and not l.startswith('fixed:'):
                r = json.loads(l)
                if r.get('property') == pid:
                    out.append(r)
    return out


def replay_batch(pid, items, timeout=600):
    """items: list of dicts(harness, params, draws).  Runs them on the uninstrumented modules in a fresh interpreter.
    returns list of results: True | [signature, detail...] | {'error': ...}"""
    if not items:
        return []
    with tempfile.TemporaryDirectory(prefix='verif-replay-') as td:
        f = os.path.join(td, 'batch.json')
        json.dump({'property': pid, 'items': items}, open(f, 'w'))
        env = dict(os.environ, VERIF_CONCRETE='1', PYTHONHASHSEED=os.environ.get('PYTHONHASHSEED', '0'))
        p = subprocess.run([PY, os.path.join(VERIF, "lib", "main.py"), "replay-batch", f], capture_output=True, text=True,
                           timeout=timeout, env=env)
        try:
            return json.loads(p.stdout.strip().splitlines()[-1])
        except Exception:
            return [{'error': 'replay process failed: rc=%s %s %s' % (p.returncode, p.stdout[-800:], p.stderr[-1500:])}] * len(items)


def run_replay_batch(path):
    """(in the fresh interpreter) evaluate harnesses concretely"""
    from engines.pysym import hook, explore
    hook.install(instrument=False)
    spec = json.load(open(path))
    mod = load_check(spec['property'])
    out = []
    for it in spec['items']:
        try:
            r = getattr(mod, it['harness'])(explore.ConcDraw(it['draws']), **it['params'])
            out.append(True if r is True else _jsonable(r))
        except BaseException as e:
            import traceback
            out.append({'error': '%r %s' % (e, traceback.format_exc()[-1200:])})
    print(json.dumps(out))


def _jsonable(x, depth=0):
    if isinstance(x, (str, int, float, bool)) or x is None:
        return x
    if isinstance(x, (list, tuple)) and depth < 5:
        return [_jsonable(y, depth + 1) for y in x]
    if isinstance(x, dict) and depth < 5:
        return {str(k): _jsonable(v, depth + 1) for k, v in x.items()}
    return str(x)


def sig_of(r):
    if r is True:
        return None
    if isinstance(r, list) and r:
        return str(r[0])
    return str(r)


def run_check(pid, tier, mod=None, extra_stages=(), extra_cov=None):
    """run a whole Engine P check; returns exit code.  extra_stages: callables(ctx) -> dict(updates) run before finishing"""
    from engines.pysym import hook
    t0 = time.time()
    seed = int(os.environ.get('VERIF_SEED', '0') or 0)
    hook.install(instrument=True)
    mod = mod or load_check(pid)
    obs = list(mod.obligations(tier))
    import random
    random.Random(seed).shuffle(obs)
    # cheap obligations first: under the tier's time budget breadth comes before depth
    obs.sort(key=lambda o: o.cost)
    sample_paths = 2 if tier == 'quick' else 4
    budget = float(os.environ.get('VERIF_BUDGET_S', 900 if tier == 'quick' else 1500))
    DEADLINE[0] = t0 + budget
    ctx = multiprocessing.get_context('fork')
    results = []
    from engines.pysym import core
    dump = tempfile.mkdtemp(prefix='verif-smt-')
    core.E.dump_dir, core.E.dump_every = dump, int(os.environ.get('VERIF_SMT_DUMP_EVERY', 97 if tier == 'quick' else 41))
    core.E.dump_cap = int(os.environ.get('VERIF_SMT_DUMP_CAP', 2 if tier == 'quick' else 6))
    with ctx.Pool(min(NPROC, max(1, len(obs)))) as pool:
        for r in pool.imap_unordered(_run_ob, [(mod.__name__, ob, sample_paths) for ob in obs], chunksize=1):
            results.append(r)
    results.sort(key=lambda r: r['name'])
    second = second_solver(dump, limit=(120 if tier == 'quick' else 600))
    if os.environ.get('VERIF_KEEP_SMT'):
        shutil.copytree(dump, os.environ['VERIF_KEEP_SMT'], dirs_exist_ok=True)
    shutil.rmtree(dump, ignore_errors=True)
    extra_cov = dict(extra_cov or {}, second_solver=second)
    if second['disagreements']:
        results.append(dict(paths=0, aborted=0, decisions=0, violations=[], samples=[], exhaustive=False, failures_by_sig={}, queries=0, solver_s=0.0, wall_s=0.0,
                            leaks=0, name='second-solver', harness='-', params={},
                            unsupported=['solvers disagree on a dumped path condition: %r' % (x,) for x in second['disagreements'][:3]]))
    extra, ground_bad = None, []
    if hasattr(mod, 'ground_stage'):
        try:
            extra, ground_bad = mod.ground_stage()
        except Exception as e:      # a crash of a stage is a harness error; it must not hide what the other stages found
            import traceback
            results.append(dict(paths=0, aborted=0, decisions=0, violations=[], samples=[], exhaustive=False, failures_by_sig={}, queries=0, solver_s=0.0, wall_s=0.0,
                                leaks=0, name='ground-stage', harness='-', params={}, unsupported=['stage crashed: %r\n%s' % (e, traceback.format_exc()[-1200:])]))
    if extra_cov:
        extra = dict(extra or {}, **extra_cov)
    return finish(pid, tier, mod, results, t0, seed, extra, ground_bad)


def second_solver(d, limit=120, timeout=20):
    """re-discharges sampled Engine P queries (SMT-LIB2 dumps with the Python z3's verdict) with the z3 4.8.12 and cvc5 1.0.3 binaries;
    a different sat/unsat answer is a harness error; unknown/timeout/(error lines are inconclusive"""
    import glob
    import subprocess
    import concurrent.futures
    files = sorted(glob.glob(os.path.join(d, '*.smt2')))
    step = max(1, len(files) // limit)
    files = files[::step][:limit]
    solvers = {'z3-4.8.12': ['/usr/bin/z3', '-T:%d' % timeout], 'cvc5-1.0.3': ['cvc5', '--tlimit=%d' % (timeout * 1000)]}
    solvers = {k: v for k, v in solvers.items() if shutil.which(v[0])}
    out = dict(dumped=len(glob.glob(os.path.join(d, '*.smt2'))), rechecked=len(files), solvers={k: dict(agree=0, inconclusive=0, disagree=0) for k in solvers},
               verdicts={'sat': 0, 'unsat': 0}, disagreements=[])

    def one(f):
        want = 'unsat' if f.endswith('_unsat.smt2') else 'sat'
        res = {}
        for name, cmd in solvers.items():
            try:
                p = subprocess.run(cmd + [f], capture_output=True, text=True, timeout=timeout + 10)
                txt = p.stdout.strip()
                first = txt.splitlines()[0].strip() if txt else ''
                res[name] = first if first in ('sat', 'unsat') and '(error' not in txt else 'inconclusive'
            except Exception:
                res[name] = 'inconclusive'
        return f, want, res
    with concurrent.futures.ThreadPoolExecutor(NPROC) as ex:
        for f, want, res in ex.map(one, files):
            out['verdicts'][want] += 1
            for name, a in res.items():
                if a == 'inconclusive':
                    out['solvers'][name]['inconclusive'] += 1
                elif a == want:
                    out['solvers'][name]['agree'] += 1
                else:
                    out['solvers'][name]['disagree'] += 1
                    keep = os.path.join(VERIF, 'replays', 'solver-disagreement-' + os.path.basename(f))
                    os.makedirs(os.path.dirname(keep), exist_ok=True)
                    shutil.copy(f, keep)
                    out['disagreements'].append(dict(file=keep, python_z3=want, solver=name, answer=a))
    return out


def finish(pid, tier, mod, results, t0, seed, extra=None, ground_bad=()):
    harness_errors = []
    for r in results:
        for u in r['unsupported'][:3]:
            harness_errors.append('%s: %s' % (r['name'], u))
    # --- replay counterexamples and validate sample paths on the real code
    cex, samples = [], []
    for r in results:
        seen = {}
        for v in r['violations']:
            n = seen.get(v['signature'], 0)
            seen[v['signature']] = n + 1
            if n < 3:
                cex.append((r, v))
        for s in r['samples']:
            samples.append((r, s))
    rep = replay_batch(pid, [dict(harness=r['harness'], params=r['params'], draws=v['draws']) for r, v in cex])
    srep = replay_batch(pid, [dict(harness=r['harness'], params=r['params'], draws=s) for r, s in samples])
    validated = 0
    concrete_failures = []
    for (r, s), out in zip(samples, srep):
        if out is True:
            validated += 1
        elif isinstance(out, dict) and 'error' in out:
            harness_errors.append('%s: concrete validation of a path witness could not run: %s' % (r['name'], out['error']))
        else:
            # the real code fails the harness's postcondition on an input of the explored space although the symbolic path passed
            # (behaviour the engine does not see, e.g. dependence on the process's hash seed): a reproduced failure is a violation
            concrete_failures.append((r, dict(signature=sig_of(out), detail=out, draws=s)))
    kf = known_findings(pid)
    open_kf = [k for k in kf if k.get('status') == 'open']
    violations, known_hits = [], {}
    for (r, v), out in list(zip(cex, rep)) + [((r, v), v['detail']) for r, v in concrete_failures]:
        if out is True:
            harness_errors.append('%s: counterexample %s did not reproduce on the real code: %r' % (r['name'], v['signature'], v['draws']))
            continue
        if isinstance(out, dict) and 'error' in out:
            harness_errors.append('%s: replay error %s' % (r['name'], out['error']))
            continue
        sig = sig_of(out)
        hit = None
        for k in open_kf:
            if fnmatch.fnmatchcase(sig, k['signature']) and fnmatch.fnmatchcase(r['name'], k.get('obligation', '*')):
                hit = k
                break
        rec = dict(obligation=r['name'], harness=r['harness'], params=r['params'], draws=v['draws'], signature=sig, detail=out)
        if hit is not None:
            known_hits.setdefault(hit['id'], []).append(rec)
        else:
            violations.append(rec)
    lines = []
    # open findings: replay the recorded witness so that the line is printed only while the defect is there
    kf_items = [k for k in open_kf if k.get('witness')]
    kf_rep = replay_batch(pid, [dict(harness=k['witness']['harness'], params=k['witness']['params'], draws=k['witness']['draws']) for k in kf_items])
    for k, out in zip(kf_items, kf_rep):
        if out is True:
            lines.append('NOTE: known finding %s no longer reproduces (witness passes); remove or mark it fixed' % k['id'])
        elif isinstance(out, dict) and 'error' in out:
            harness_errors.append('known finding %s: replay error %s' % (k['id'], out['error']))
        else:
            lines.append('KNOWN-FINDING: property=%s %s' % (pid, k['text']))
    for k in open_kf:
        if not k.get('witness'):
            if k['id'] in known_hits:
                lines.append('KNOWN-FINDING: property=%s %s' % (pid, k['text']))
    rdir = os.path.join(VERIF, 'replays', pid)
    vio_lines = []
    seen_sigs = set()
    for i, v in enumerate(violations):
        key = v['signature']
        if key in seen_sigs or len(vio_lines) >= 6:
            continue
        seen_sigs.add(key)
        os.makedirs(rdir, exist_ok=True)
        path = os.path.join(rdir, 'cex_%03d.json' % len(vio_lines))
        json.dump(dict(property=pid, **v), open(path, 'w'), indent=1, ensure_ascii=False)
        vio_lines.append('VIOLATION property=%s replay=%s' % (pid, path))
        print('  counterexample: %s %s %r' % (v['obligation'], v['signature'], v['draws']))
    if ground_bad:
        # violations found by exhaustive evaluation of shipped data are concrete by construction
        os.makedirs(rdir, exist_ok=True)
        path = os.path.join(rdir, 'ground.json')
        json.dump(dict(property=pid, engine='ground', bad=_jsonable(list(ground_bad)[:50])), open(path, 'w'), indent=1, ensure_ascii=False)
        vio_lines.append('VIOLATION property=%s replay=%s' % (pid, path))
        print('  ground violations: %r' % (list(ground_bad)[:3],))
    paths = sum(r['paths'] for r in results)
    nontrivial = sum(1 for r in results if r['paths'] > 1)
    exhaustive = all(r['exhaustive'] for r in results)
    cov = dict(
        states=paths, transitions=sum(r['decisions'] for r in results), traces_validated_against_impl=validated + len(cex),
        evaluations=paths, distinct_nontrivial=paths,
        rule=('one evaluation = one feasible path of the real code under the symbolic inputs of an obligation (a region of the input '
              'space decided by z3); all are distinct path conditions; non-trivial = reached the postcondition'),
        obligations=len(results), discharged=sum(1 for r in results if r['exhaustive'] and not r['unsupported']),
        inconclusive=[r['name'] for r in results if not r['exhaustive'] or r['unsupported']][:200],
        not_run_for_lack_of_time=sum(1 for r in results if r.get('skipped')),
        exhaustive=exhaustive and not harness_errors,
        solver_queries=sum(r['queries'] for r in results), solver_s=round(sum(r['solver_s'] for r in results), 2),
        aborted_infeasible=sum(r['aborted'] for r in results),
        functions_encoded=getattr(mod, 'FUNCTIONS', []), bounds=getattr(mod, 'BOUNDS', {}).get(tier, getattr(mod, 'BOUNDS', {})),
        outside_bounds=getattr(mod, 'OUTSIDE', ''),
        per_obligation=[dict(name=r['name'], paths=r['paths'], queries=r['queries'], solver_s=r['solver_s'], wall_s=r['wall_s'],
                             exhaustive=r['exhaustive'], failures=r['failures_by_sig']) for r in results][:400],
        samples=[dict(obligation=r['name'], draws=s) for r, s in samples[:12]] or [dict(obligation=r['name'], params=r['params']) for r in results[:3]],
        known_findings_hit={k: len(v) for k, v in known_hits.items()},
        harness_errors=harness_errors[:20],
        engine='Engine P (proxy symbolic execution of the real modules, z3 %s)' % _z3v(),
    )
    if extra:
        cov.update(extra)
    ev = dict(property_id=pid, tier=tier, seed=seed, level='model_checking', coverage=cov,
              assumptions=getattr(mod, 'ASSUMPTIONS', []), wall_s=round(time.time() - t0, 2), violations=len(vio_lines))
    EVD = os.environ.get('VERIF_EVIDENCE_DIR') or os.path.join(VERIF, 'evidence')
    os.makedirs(EVD, exist_ok=True)
    json.dump(ev, open(os.path.join(EVD, pid + '.json'), 'w'), indent=1, ensure_ascii=False)
    for l in lines:
        print(l)
    print('%s %s: %d obligations, %d paths, %d solver queries (%.1fs solver), %d concrete validations, exhaustive=%s, wall %.1fs'
          % (pid, tier, len(results), paths, cov['solver_queries'], cov['solver_s'], cov['traces_validated_against_impl'], cov['exhaustive'], time.time() - t0))
    if vio_lines:
        for l in vio_lines:
            print(l)
        return EXIT_VIOLATION
    if harness_errors:
        for h in harness_errors[:10]:
            print('HARNESS-ERROR: ' + h)
        return EXIT_HARNESS
    return EXIT_OK


def _z3v():
    try:
        import z3
        return z3.get_version_string()
    except Exception:
        return '?'
