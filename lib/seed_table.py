"""renders seeded/INDEX.json (+ each seeded/<name>/meta.json) into the table of DESIGN.md section 15"""
import json, os, re
V = os.path.dirname(os.path.dirname(os.path.abspath(__file__)))
idx = json.load(open(os.path.join(V, 'seeded', 'INDEX.json')))
rows = ['| seed | breaks | the change | needs, to manifest | first run of the checks | what was strengthened | now |', '|---|---|---|---|---|---|---|']
for e in idx:
    mp = os.path.join(V, 'seeded', e['name'], 'meta.json')
    conf = ''
    if os.path.exists(mp):
        m = json.load(open(mp))
        conf = '' if m.get('confirmed') else ' (NOT confirmed)'
    rows.append('| `%s`%s | %s | %s | %s | %s | %s | %s |' % (e['name'], conf, e['property'], e['change'], e['needs'], e['first_run'], e['action'], e['now']))
table = '\n'.join(rows)
p = os.path.join(V, 'DESIGN.md')
s = open(p).read()
if 'SEED_TABLE_PLACEHOLDER' in s:
    s = s.replace('SEED_TABLE_PLACEHOLDER', '<!-- seed table start -->\n' + table + '\n<!-- seed table end -->')
else:
    s = re.sub(r'<!-- seed table start -->.*?<!-- seed table end -->', lambda m: '<!-- seed table start -->\n' + table + '\n<!-- seed table end -->', s, flags=re.S)
open(p, 'w').write(s)
print(len(idx), 'seeds rendered')
