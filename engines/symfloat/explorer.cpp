// Engine A driver: explores every feasible path of the real parse_sentence (depccg/parsing.h, included unchanged with
// `float` replaced by sym::Float) for one obligation, and checks the C01/C09/C10/C16/C02 assertions on every path with z3.
// usage: explorer <spec file> <shard> <nshards> [max_paths] ; prints JSON lines.
#include <iostream>
#include <fstream>
#include <string>
#include <vector>
#include <unordered_set>
#include <unordered_map>
#include <queue>
#include <list>
#include <limits>
#include <cmath>
#include <utility>
#include <stdexcept>
#include <cstdlib>
#include <set>
#include <functional>
#include <algorithm>
#include <deque>
#include <unistd.h>
#include "symfloat.h"
sym::Engine sym::E;

// ---- agenda recorder: std::priority_queue with pops/pushes observed (container substitution only)
namespace std {
template <class T> void verif_on_pop(const T &) {}
template <class T> void verif_on_push(const T &) {}
template <class T> class verif_pq : public priority_queue<T> {
  public:
    void pop() { verif_on_pop(this->top()); priority_queue<T>::pop(); }
    void push(const T &x) { verif_on_push(x); priority_queue<T>::push(x); }
    void push(T &&x) { verif_on_push(x); priority_queue<T>::push(std::move(x)); }
};
}
#define float sym::Float
#define priority_queue verif_pq
#include PARSING_H
#undef priority_queue
#undef float

using sym::E; using sym::Float; using sym::Lin;

struct Pop { Float prio; bool fin; unsigned cat, start, len; bool leaf; };
static std::vector<Pop> g_pops;
static std::vector<std::pair<unsigned, unsigned>> g_leaf_pushes;   // (token, cat)
namespace parsing {
void verif_on_pop(const cell_item &it) { g_pops.push_back({it.score(), it.fin, it.cat, it.start_of_span, it.span_length, it.left == nullptr && it.right == nullptr}); }
void verif_on_push(const cell_item &it) { if (!it.fin && it.left == nullptr && it.right == nullptr) g_leaf_pushes.push_back({it.start_of_span, it.cat}); }
}

// ---- obligation spec
struct Spec {
    unsigned n = 1, T = 1, nbest = 1, pruning = 1, max_step = 100000; bool use_beta = false; double beta = 0.5;
    int penalty_mode = 0; double penalty = 0;     // 0: concrete value, 1: symbolic >= 0
    std::vector<unsigned> roots;
    struct Rule { unsigned x, y, cat; bool head_left; std::string label; };
    std::vector<Rule> binary; std::vector<Rule> unary;
    std::vector<std::vector<int>> tag_mask;   // per word: 1 = free symbolic tag, 0 = tag far below (excluded by a constraint)
    bool check_opt = true, check_mono = true, check_score = true, check_nbest = true, check_beam = true;
    bool records = false; long record_every = 1;
    std::vector<std::pair<unsigned, unsigned>> below;
    std::vector<std::pair<unsigned, unsigned>> flat;     // tags flattened by the category dictionary: constrained <= -200 (exp underflows to 0), no lower bound
    struct Eq { char kind; unsigned i, j; long v; }; std::vector<Eq> eq;   // cells held at a stated integer value (a slice of the matrix space; the cell stays a solver variable)
    long lo = 0; bool has_lo = false;                     // lower bound of the other tag scores (keeps exp away from underflow)   // tags constrained below every other tag of their word (a partition piece of the matrix space)
};
static Spec S;

static void read_spec(const char *path) {
    std::ifstream in(path); std::string k;
    while (in >> k) {
        if (k == "n") in >> S.n; else if (k == "T") in >> S.T; else if (k == "nbest") in >> S.nbest; else if (k == "pruning") in >> S.pruning;
        else if (k == "max_step") in >> S.max_step; else if (k == "use_beta") in >> S.use_beta; else if (k == "beta") in >> S.beta;
        else if (k == "penalty") { std::string v; in >> v; if (v == "sym") S.penalty_mode = 1; else { S.penalty_mode = 0; S.penalty = atof(v.c_str()); } }
        else if (k == "root") { unsigned r; in >> r; S.roots.push_back(r); }
        else if (k == "binary") { Spec::Rule r; int h; in >> r.x >> r.y >> r.cat >> h >> r.label; r.head_left = h; S.binary.push_back(r); }
        else if (k == "unary") { Spec::Rule r; in >> r.x >> r.cat >> r.label; r.y = UINT_MAX; r.head_left = true; S.unary.push_back(r); }
        else if (k == "flat") { unsigned i, c; in >> i >> c; S.flat.push_back({i, c}); }
        else if (k == "lo") { in >> S.lo; S.has_lo = true; }
        else if (k == "eq") { Spec::Eq e; in >> e.kind >> e.i >> e.j >> e.v; S.eq.push_back(e); }
        else if (k == "below") { unsigned i, c; in >> i >> c; S.below.push_back({i, c}); }
        else if (k == "records") in >> S.records; else if (k == "record_every") in >> S.record_every;
        else if (k == "checks") { std::string v; in >> v; S.check_opt = v.find('o') != std::string::npos; S.check_mono = v.find('m') != std::string::npos; S.check_score = v.find('s') != std::string::npos; S.check_nbest = v.find('n') != std::string::npos; S.check_beam = v.find('b') != std::string::npos; }
        else { std::cerr << "bad spec key " << k << "\n"; exit(3); }
    }
}

static int scaffold(void *cb, unsigned x, unsigned y, std::vector<combinator_result> *res) {
    if (y == UINT_MAX) { for (auto &r : S.unary) if (r.x == x) res->push_back({r.cat, (unsigned)res->size(), true, r.label, r.label}); }
    else { for (auto &r : S.binary) if (r.x == x && r.y == y) res->push_back({r.cat, (unsigned)res->size(), r.head_left, r.label, r.label}); }
    return 0;
}

// ---- the tree the search returns (from back-pointers), with the score recomputed from it
struct Node { unsigned cat, rule; int kind; /*0 leaf 1 unary 2 binary*/ unsigned tok; bool head_left; std::vector<Node> ch; unsigned head; std::string label; };
struct Result { Float reported; Node tree; };
static std::vector<Result> g_results;
static cache_type *g_cache;

static Node build(parsing::cell_item *it, unsigned &tok) {
    Node nd; nd.cat = it->cat; nd.rule = it->rule_id; nd.head_left = true; nd.tok = 0; nd.head = 0;
    if (!it->left && !it->right) { nd.kind = 0; nd.tok = tok; nd.head = tok; tok++; return nd; }
    nd.ch.push_back(build(it->left, tok));
    if (!it->right) {
        nd.kind = 1; nd.head = nd.ch[0].head;
        auto fu = g_cache->find(std::make_pair(nd.ch[0].cat, (unsigned)UINT_MAX));
        if (fu == g_cache->end() || nd.rule >= fu->second.size()) { nd.rule = UINT_MAX; nd.label = "?"; } else nd.label = fu->second[nd.rule].op_string;
        return nd;
    }
    nd.ch.push_back(build(it->right, tok));
    nd.kind = 2;
    auto key = std::make_pair(nd.ch[0].cat, nd.ch[1].cat);
    auto f = g_cache->find(key);
    if (f == g_cache->end() || nd.rule >= f->second.size()) { nd.head_left = true; nd.rule = UINT_MAX; nd.label = "?"; }
    else { nd.head_left = f->second[nd.rule].head_is_left; nd.label = f->second[nd.rule].op_string; }
    nd.head = nd.head_left ? nd.ch[0].head : nd.ch[1].head;
    return nd;
}
static unsigned fin_cb(parsing::cell_item *it, unsigned *, cache_type *cache, void *) {
    g_cache = cache; unsigned tok = 0; Result r; r.reported = it->score(); r.tree = build(it->left ? it->left : it, tok); g_results.push_back(r); return 0;
}
static std::string tree_text(const Node &n) {
    if (n.kind == 0) return std::to_string(n.cat);
    std::string s = "(" + std::to_string(n.cat) + (n.kind == 2 ? (n.head_left ? "<" : ">") : "^") + ":" + (n.rule == UINT_MAX ? std::string("?") : std::to_string(n.rule));
    for (auto &c : n.ch) s += " " + tree_text(c);
    return s + ")";
}

// ---- independent oracle: all derivations by exhaustive CKY with unary closure (linear score terms)
struct Deriv { unsigned cat; Lin inside; unsigned head; std::string text; std::vector<std::pair<unsigned, unsigned>> leaves; int unaries; };
static std::vector<std::vector<Lin>> TAG, DEP; static Lin PEN;

static void unary_closure(std::vector<Deriv> &cell) {
    size_t start = 0;
    for (int depth = 0; depth < 4; depth++) {
        size_t end = cell.size();
        for (size_t i = start; i < end; i++) for (auto &r : S.unary) if (r.x == cell[i].cat) {
            Deriv d = cell[i]; d.cat = r.cat; d.inside = d.inside - PEN; d.unaries++; d.text = "(" + std::to_string(r.cat) + "^" + r.label + " " + cell[i].text + ")"; cell.push_back(d);
        }
        start = end; if (start == cell.size()) break;
    }
}
static std::vector<Deriv> all_derivations(const std::function<bool(unsigned, unsigned)> &tag_ok) {
    unsigned n = S.n;
    std::vector<std::vector<std::vector<Deriv>>> ch(n, std::vector<std::vector<Deriv>>(n + 1));
    for (unsigned i = 0; i < n; i++) {
        for (unsigned c = 0; c < S.T; c++) if (tag_ok(i, c)) { Deriv d{c, TAG[i][c], i, std::to_string(c), {{i, c}}, 0}; ch[i][i + 1].push_back(d); }
        unary_closure(ch[i][i + 1]);      // leaves: span 1 is the whole sentence only when n == 1, where unary steps are allowed too
    }
    for (unsigned len = 2; len <= n; len++) for (unsigned i = 0; i + len <= n; i++) {
        unsigned j = i + len; auto &cell = ch[i][j];
        for (unsigned m = i + 1; m < j; m++) for (auto &l : ch[i][m]) for (auto &r : ch[m][j]) for (auto &rule : S.binary) if (rule.x == l.cat && rule.y == r.cat) {
            const Deriv &h = rule.head_left ? l : r, &c = rule.head_left ? r : l;
            Deriv d; d.cat = rule.cat; d.head = h.head; d.inside = l.inside + r.inside + DEP[c.head][h.head + 1]; d.unaries = l.unaries + r.unaries;
            d.text = "(" + std::to_string(rule.cat) + (rule.head_left ? "<" : ">") + rule.label + " " + l.text + " " + r.text + ")"; d.leaves = l.leaves; d.leaves.insert(d.leaves.end(), r.leaves.begin(), r.leaves.end());
            cell.push_back(d);
        }
        if (len != n) unary_closure(cell);
    }
    std::vector<Deriv> out;
    for (auto &d : ch[0][n]) if (std::find(S.roots.begin(), S.roots.end(), d.cat) != S.roots.end()) { Deriv e = d; e.inside = e.inside + DEP[d.head][0]; out.push_back(e); }
    return out;
}
// score recomputed from a returned tree
static Lin recompute(const Node &n) {
    if (n.kind == 0) return TAG[n.tok][n.cat];
    if (n.kind == 1) return recompute(n.ch[0]) - PEN;
    const Node &h = n.head_left ? n.ch[0] : n.ch[1], &c = n.head_left ? n.ch[1] : n.ch[0];
    return recompute(n.ch[0]) + recompute(n.ch[1]) + DEP[c.head][h.head + 1];
}
static std::string deriv_key(const Node &n) {   // comparable with Deriv.text
    if (n.kind == 0) return std::to_string(n.cat);
    if (n.kind == 1) return "(" + std::to_string(n.cat) + "^" + n.label + " " + deriv_key(n.ch[0]) + ")";
    return "(" + std::to_string(n.cat) + (n.head_left ? "<" : ">") + n.label + " " + deriv_key(n.ch[0]) + " " + deriv_key(n.ch[1]) + ")";
}
static void leaves_of(const Node &n, std::vector<std::pair<unsigned, unsigned>> &out) { if (n.kind == 0) out.push_back({n.tok, n.cat}); for (auto &c : n.ch) leaves_of(c, out); }

// structural validity of a returned tree against the grammar tables (C02 at the search level)
static std::string validate(const Node &n, bool root) {
    // C02.*: the node's category is one the grammar returns for its children's categories; C12.*: label and head direction are those of a result with that category
    if (n.kind == 0) return n.cat < S.T ? "" : "C02.leaf-cat-not-a-tag";
    if (n.kind == 1) {
        if (root && S.n > 1) return "C02.unary-at-root";
        bool ok = false, lab = false; for (auto &r : S.unary) if (r.x == n.ch[0].cat && r.cat == n.cat) { ok = true; if (r.label == n.label) lab = true; }
        if (!ok) return "C02.unary-not-licensed";
        if (!lab) return "C12.unary-label-not-of-the-creating-rule";
        return validate(n.ch[0], false);
    }
    bool ok = false, lab = false; for (auto &r : S.binary) if (r.x == n.ch[0].cat && r.y == n.ch[1].cat && r.cat == n.cat) { ok = true; if (r.head_left == n.head_left && r.label == n.label) lab = true; }
    if (!ok) return "C02.binary-not-licensed";
    if (!lab) return "C12.label-or-head-not-of-the-creating-rule";
    std::string a = validate(n.ch[0], false); if (!a.empty()) return a; return validate(n.ch[1], false);
}

static z3::expr gt(const Lin &a, const Lin &b) { return sym::rel_lin(a - b, 2); }
static z3::expr ge(const Lin &a, const Lin &b) { return sym::rel_lin(a - b, 3); }

static std::string json_escape(const std::string &s) { std::string o; for (char c : s) { if (c == '"' || c == '\\') o += '\\'; o += c; } return o; }
static std::string model_json(z3::model &m) {
    std::string o = "{";
    for (size_t i = 0; i < E.vars.size(); i++) { if (i) o += ","; z3::expr v = m.eval(E.vars[i], true); int64_t iv = 0; if (!v.is_numeral_i64(iv)) iv = 0; o += "\"" + E.names[i] + "\":" + std::to_string(iv); }
    return o + "}";
}
static long g_viol = 0;
static std::vector<z3::expr> g_conds;      // every condition checked on the current path (their disjunction must be unsat with the path condition)
static std::string g_dump_dir; static long g_dump_every = 0, g_dumped = 0;
static std::map<std::string, long> g_viol_kinds;
static void report(const std::string &kind, const std::string &detail, const z3::expr &cond) {
    // cond: pc & cond satisfiable => violation; print a witness
    z3::model *m = nullptr;
    g_conds.push_back(cond);
    if (!E.sat_with(cond, &m)) return;
    g_viol++; long k = ++g_viol_kinds[kind];
    if (k <= 3) std::cout << "{\"type\":\"violation\",\"kind\":\"" << kind << "\",\"detail\":\"" << json_escape(detail) << "\",\"model\":" << model_json(*m) << "}\n";
    delete m;
}

int main(int argc, char **argv) {
    if (argc < 2) { std::cerr << "usage: explorer spec [--frontier K] [--start file] [--max-paths N] [--max-seconds S]\n"; return 3; }
    read_spec(argv[1]);
    long max_paths = 100000000L, frontier = 0; double max_seconds = 1e9; std::string start_file;
    for (int i = 2; i + 1 < argc; i += 2) {
        std::string k = argv[i];
        if (k == "--frontier") frontier = atol(argv[i + 1]); else if (k == "--start") start_file = argv[i + 1];
        else if (k == "--dump-dir") g_dump_dir = argv[i + 1]; else if (k == "--dump-every") g_dump_every = atol(argv[i + 1]);
        else if (k == "--max-paths") max_paths = atol(argv[i + 1]); else if (k == "--max-seconds") max_seconds = atof(argv[i + 1]);
        else { std::cerr << "bad option " << k << "\n"; return 3; }
    }
    unsigned n = S.n, T = S.T;
    // variables (created once; constraints re-asserted per path)
    std::vector<std::vector<int>> tv(n, std::vector<int>(T)), dv(n, std::vector<int>(n + 1));
    for (unsigned i = 0; i < n; i++) for (unsigned c = 0; c < T; c++) tv[i][c] = E.new_var("t" + std::to_string(i) + "_" + std::to_string(c));
    for (unsigned i = 0; i < n; i++) for (unsigned h = 0; h <= n; h++) dv[i][h] = E.new_var("d" + std::to_string(i) + "_" + std::to_string(h));
    int pv = S.penalty_mode == 1 ? E.new_var("pen") : -1;
    TAG.assign(n, std::vector<Lin>(T)); DEP.assign(n, std::vector<Lin>(n + 1));
    for (unsigned i = 0; i < n; i++) for (unsigned c = 0; c < T; c++) TAG[i][c] = Float::var(tv[i][c]).l;
    for (unsigned i = 0; i < n; i++) for (unsigned h = 0; h <= n; h++) DEP[i][h] = Float::var(dv[i][h]).l;
    if (pv >= 0) PEN = Float::var(pv).l; else { PEN = Lin(); PEN.k = S.penalty; }

    std::deque<std::vector<int>> work;
    if (start_file.empty()) work.push_back({});
    else { std::ifstream in(start_file); std::string l; while (std::getline(in, l)) { std::vector<int> p; for (char ch : l) if (ch == '0' || ch == '1') p.push_back(ch == '1'); if (!l.empty() || true) work.push_back(p); } }
    long paths = 0, aborted = 0, notmine = 0, unsupported = 0, parsed = 0, failed = 0, with_unary = 0, full_nbest = 0, beam_cut = 0, stepout = 0;
    auto t0 = std::chrono::steady_clock::now();
    bool exhausted = true;
    while (!work.empty()) {
        if (paths >= max_paths || std::chrono::duration<double>(std::chrono::steady_clock::now() - t0).count() > max_seconds) { exhausted = false; break; }
        if (frontier && (long)work.size() >= frontier) break;
        if (frontier) { E.prefix = work.front(); work.pop_front(); } else { E.prefix = work.back(); work.pop_back(); }
        E.reset();
        for (size_t i = 0; i < E.vars.size(); i++) { if ((int)i == pv) E.solver->add(E.vars[i] >= 0); else E.solver->add(E.vars[i] <= 0); }
        for (unsigned i = 0; i < n; i++) {
            std::vector<unsigned> low; for (auto &b : S.below) if (b.first == i) low.push_back(b.second);
            for (size_t k = 0; k < low.size(); k++) {
                for (unsigned c = 0; c < T; c++) if (std::find(low.begin(), low.end(), c) == low.end()) E.solver->add(E.vars[tv[i][low[k]]] < E.vars[tv[i][c]]);
                if (k) E.solver->add(E.vars[tv[i][low[k]]] < E.vars[tv[i][low[k - 1]]]);
            }
        }
        for (unsigned i = 0; i < n; i++) for (unsigned c = 0; c < T; c++) {
            bool fl = std::find(S.flat.begin(), S.flat.end(), std::make_pair(i, c)) != S.flat.end();
            if (fl) E.solver->add(E.vars[tv[i][c]] <= -200);
            else if (S.has_lo) E.solver->add(E.vars[tv[i][c]] >= E.ctx.int_val((int64_t)S.lo));
        }
        for (auto &e : S.eq) E.solver->add(E.vars[e.kind == 't' ? tv[e.i][e.j] : dv[e.i][e.j]] == E.ctx.int_val((int64_t)e.v));
        std::vector<Float> tag(n * T), dep(n * (n + 1));
        for (unsigned i = 0; i < n; i++) for (unsigned c = 0; c < T; c++) tag[i * T + c] = Float::var(tv[i][c]);
        for (unsigned i = 0; i < n; i++) for (unsigned h = 0; h <= n; h++) dep[i * (n + 1) + h] = Float::var(dv[i][h]);
        std::unordered_set<unsigned> roots(S.roots.begin(), S.roots.end());
        cache_type cache; g_results.clear(); g_pops.clear(); g_leaf_pushes.clear();
        config cfg{T, pv >= 0 ? Float::var(pv) : Float(S.penalty), Float(S.beta), S.use_beta, S.pruning, S.nbest, S.max_step};
        int ab = 0; unsigned status = 9;
        try { status = parse_sentence(tag.data(), dep.data(), n, roots, nullptr, nullptr, fin_cb, scaffold, nullptr, &cache, &cfg); }
        catch (sym::Abort &a) { ab = a.code; }
        for (size_t i = E.prefix.size(); i < E.trace.size(); i++) if (E.both[i]) { std::vector<int> p(E.trace.begin(), E.trace.begin() + i); p.push_back(!E.trace[i]); work.push_back(p); }
        if (ab == 1) { aborted++; continue; } if (ab == 2) { notmine++; continue; } if (ab == 3) { unsupported++; continue; }
        paths++;
        g_conds.clear();
        long viol_before = g_viol;
        try {
        // ---------------- assertions on this path
        if (status == 0) parsed++; else failed++;
        size_t nonfin = 0; for (auto &p : g_pops) if (!p.fin) nonfin++;
        bool ran_out = g_pops.size() >= S.max_step;
        if (ran_out) stepout++;
        if (S.check_mono) for (size_t i = 0; i + 1 < g_pops.size(); i++) {
            const Float &a = g_pops[i].prio, &b = g_pops[i + 1].prio;
            report("C01.pop-priority-increases", "pop " + std::to_string(i) + " -> " + std::to_string(i + 1) + ": " + a.text() + " then " + b.text(), gt(b.lin(), a.lin()));
        }
        // beam: which tags may the search use
        auto strictly_higher = [&](unsigned i, unsigned c) { z3::expr cnt = E.ctx.int_val(0); for (unsigned o = 0; o < T; o++) if (o != c) cnt = cnt + z3::ite(gt(TAG[i][o], TAG[i][c]), E.ctx.int_val(1), E.ctx.int_val(0)); return cnt; };
        auto higher_or_equal = [&](unsigned i, unsigned c) { z3::expr cnt = E.ctx.int_val(0); for (unsigned o = 0; o < T; o++) if (o != c) cnt = cnt + z3::ite(ge(TAG[i][o], TAG[i][c]), E.ctx.int_val(1), E.ctx.int_val(0)); return cnt; };
        double lnb = std::log(S.beta);
        auto above_beta = [&](unsigned i, unsigned c) { z3::expr e = E.ctx.bool_val(true); if (S.use_beta) for (unsigned o = 0; o < T; o++) { Lin d = TAG[i][c] - TAG[i][o]; d.k -= lnb; e = e && sym::rel_lin(d, 3); } return e; };
        auto admitted_weak = [&](unsigned i, unsigned c) { return (strictly_higher(i, c) < E.ctx.int_val((int)S.pruning)) && above_beta(i, c); };
        auto admitted_strong = [&](unsigned i, unsigned c) { return (higher_or_equal(i, c) < E.ctx.int_val((int)S.pruning)) && above_beta(i, c); };
        bool beam_trivial = S.pruning >= T && !S.use_beta;
        if (g_leaf_pushes.size() < n * T) beam_cut++;
        std::vector<Deriv> derivs = all_derivations([](unsigned, unsigned) { return true; });
        std::set<std::string> returned;
        for (size_t r = 0; r < g_results.size(); r++) {
            Result &res = g_results[r];
            std::string key = deriv_key(res.tree);
            std::function<bool(const Node &)> hasun = [&](const Node &x) { if (x.kind == 1) return true; for (auto &c : x.ch) if (hasun(c)) return true; return false; };
            if (r == 0 && hasun(res.tree)) with_unary++;
            std::string bad = validate(res.tree, true);
            bool rootok = std::find(S.roots.begin(), S.roots.end(), res.tree.cat) != S.roots.end();
            std::vector<std::pair<unsigned, unsigned>> lv; leaves_of(res.tree, lv);
            bool order = lv.size() == n; for (size_t i = 0; i < lv.size() && order; i++) order = lv[i].first == i;
            if (!bad.empty() || !rootok || !order) report(bad.empty() ? std::string(rootok ? "C02.leaves-not-in-order" : "C02.root-not-allowed") : bad, tree_text(res.tree), E.ctx.bool_val(true));
            if (S.check_score) { Lin rec = recompute(res.tree) + DEP[res.tree.head][0]; report("C09.reported-score-differs", tree_text(res.tree) + " reported " + res.reported.text() + " recomputed " + sym::lin_text(rec), E.to_expr(res.reported.lin() - rec) != 0); }
            if (S.check_beam) for (auto &l : lv) report("C16.leaf-outside-beam", "word " + std::to_string(l.first) + " tag " + std::to_string(l.second) + " in " + tree_text(res.tree), !admitted_weak(l.first, l.second));
            if (returned.count(key)) report("C10.duplicate-tree", key, E.ctx.bool_val(true));
            returned.insert(key);
            if (r > 0 && S.check_nbest) report("C10.not-sorted", std::to_string(r), gt(res.reported.lin(), g_results[r - 1].reported.lin()));
        }
        if (status == 0 && g_results.empty()) report("C02.success-without-tree", "", E.ctx.bool_val(true));
        if (status != 0 && !g_results.empty()) report("C02.failure-with-tree", "", E.ctx.bool_val(true));
        // derivations inside the beam (as the statement defines it)
        auto in_beam = [&](const Deriv &d, bool strong) { z3::expr e = E.ctx.bool_val(true); if (!beam_trivial) for (auto &l : d.leaves) e = e && (strong ? admitted_strong(l.first, l.second) : admitted_weak(l.first, l.second)); return e; };
        if (status == 0 && S.check_opt && !g_results.empty()) {
            // first result is the best derivation over the beam-admitted tags
            for (auto &d : derivs) report("C01.better-derivation-exists", d.text + " scores " + sym::lin_text(d.inside) + " > returned " + tree_text(g_results[0].tree) + " = " + g_results[0].reported.text(), in_beam(d, true) && gt(d.inside, g_results[0].reported.lin()));
        }
        if (status == 0 && S.check_nbest && S.nbest > 1) {
            size_t want = std::min<size_t>(S.nbest, derivs.size());
            if (beam_trivial && !ran_out && g_results.size() != want) report("C10.wrong-count", std::to_string(g_results.size()) + " returned, " + std::to_string(derivs.size()) + " derivations", E.ctx.bool_val(true));
            if (g_results.size() == S.nbest) full_nbest++;
            if (!g_results.empty() && !ran_out) for (auto &d : derivs) if (!returned.count(d.text))
                report("C10.better-derivation-not-returned", d.text + " scores " + sym::lin_text(d.inside) + " > last returned " + g_results.back().reported.text(), in_beam(d, true) && gt(d.inside, g_results.back().reported.lin()));
        }
        if (status != 0 && S.check_nbest && S.nbest > 1 && beam_trivial && !ran_out && !derivs.empty())
            report("C10.failed-although-derivations-exist", "0 returned, " + std::to_string(derivs.size()) + " derivations, k = " + std::to_string(S.nbest), E.ctx.bool_val(true));
        if (status != 0 && S.check_opt) {
            if (!ran_out) for (auto &d : derivs) report(beam_trivial ? "C01.failed-although-derivation-exists" : "C16.failed-although-derivation-in-beam", d.text, in_beam(d, true));
        }
        if (S.records && (paths % S.record_every == 0)) {
            z3::model *m = nullptr;
            if (E.sat_with(E.ctx.bool_val(true), &m)) {
                std::cout << "{\"type\":\"path\",\"status\":" << status << ",\"pops\":" << g_pops.size() << ",\"trees\":[";
                for (size_t r = 0; r < g_results.size(); r++) { if (r) std::cout << ","; std::cout << "{\"tree\":\"" << deriv_key(g_results[r].tree) << "\",\"score\":\"" << g_results[r].reported.text() << "\"}"; }
                std::cout << "],\"pop_seq\":[";
                for (size_t i = 0; i < g_pops.size(); i++) { if (i) std::cout << ","; std::cout << "[" << g_pops[i].fin << "," << g_pops[i].cat << "," << g_pops[i].start << "," << g_pops[i].len << "]"; }
                std::cout << "],\"model\":" << model_json(*m) << "}\n";
                delete m;
            }
        }
        if (!g_dump_dir.empty() && g_dump_every > 0 && paths % g_dump_every == 0 && g_viol == viol_before && !g_conds.empty() && g_dumped < 40) {
            // second-solver cross-check: path condition & (some checked condition) must be unsatisfiable
            z3::solver s2(E.ctx);
            for (auto a : E.solver->assertions()) s2.add(a);
            z3::expr any = E.ctx.bool_val(false);
            for (auto &c : g_conds) any = any || c;
            s2.add(any);
            std::ofstream out(g_dump_dir + "/q_" + std::to_string((long)getpid()) + "_" + std::to_string(paths) + ".smt2");
            out << "(set-logic ALL)\n" << s2.to_smt2() ;
            g_dumped++;
        }
        } catch (sym::Abort &a) { unsupported++; }
    }
    double dt = std::chrono::duration<double>(std::chrono::steady_clock::now() - t0).count();
    if (frontier) for (auto &p : work) { std::cout << "{\"type\":\"prefix\",\"p\":\""; for (int b : p) std::cout << (b ? '1' : '0'); std::cout << "\"}\n"; }
    else if (!exhausted) {}
    std::cout << "{\"type\":\"summary\",\"unexplored\":" << (frontier ? 0 : (long)work.size()) << ",\"paths_dummy\":0,\"paths\":" << paths << ",\"infeasible\":" << aborted << ",\"other_shard\":" << notmine << ",\"unsupported\":" << unsupported
              << ",\"violations\":" << g_viol << ",\"queries\":" << E.queries << ",\"unknown\":" << E.unknowns << ",\"solver_s\":" << E.solver_s << ",\"wall_s\":" << dt
              << ",\"parsed\":" << parsed << ",\"failed\":" << failed << ",\"with_unary\":" << with_unary << ",\"full_nbest\":" << full_nbest << ",\"beam_cut\":" << beam_cut
              << ",\"step_budget_hit\":" << stepout << ",\"exhausted\":" << (exhausted ? "true" : "false") << ",\"kinds\":{";
    bool first = true; for (auto &k : g_viol_kinds) { if (!first) std::cout << ","; first = false; std::cout << "\"" << k.first << "\":" << k.second; }
    std::cout << "}}\n";
    return 0;
}
