// Engine A: symbolic scalar that replaces `float` when depccg/parsing.h is compiled for symbolic execution.
// A value is a concrete double, a linear term over the integer score variables (real coefficients), or coef*exp(linear).
#pragma once
#include <z3++.h>
#include <map>
#include <vector>
#include <string>
#include <limits>
#include <cmath>
#include <cfloat>
#include <stdexcept>
#include <climits>
#include <sstream>
#include <chrono>

namespace sym {

struct Abort { int code; };          // 1: infeasible, 2: not this worker's shard, 3: unsupported

struct Lin {                         // sum coef[v]*x_v + k
    std::map<int, double> c;
    double k = 0;
    bool is_const() const { return c.empty(); }
};
inline Lin operator+(const Lin &a, const Lin &b) { Lin r = a; r.k += b.k; for (auto &p : b.c) { double v = (r.c[p.first] += p.second); if (v == 0) r.c.erase(p.first); } return r; }
inline Lin operator-(const Lin &a) { Lin r; r.k = -a.k; for (auto &p : a.c) r.c[p.first] = -p.second; return r; }
inline Lin operator-(const Lin &a, const Lin &b) { return a + (-b); }
inline Lin scale(const Lin &a, double s) { Lin r; if (s == 0) return r; r.k = a.k * s; for (auto &p : a.c) r.c[p.first] = p.second * s; return r; }

struct Engine {
    z3::context ctx;
    z3::solver *solver = nullptr;
    std::vector<z3::expr> vars;          // integer score variables
    std::vector<std::string> names;
    std::vector<int> prefix, trace, both;
    z3::model *last = nullptr;
    long queries = 0, unknowns = 0;
    double solver_s = 0;
    int shard = 0, nshards = 1, shard_depth = 0;
    std::vector<std::string> pc_log;     // textual path condition (for records)
    bool log_pc = false;

    int new_var(const std::string &name) { vars.push_back(ctx.int_const(name.c_str())); names.push_back(name); return (int)vars.size() - 1; }
    void reset() {
        delete last; last = nullptr; delete solver; solver = new z3::solver(ctx);
        trace.clear(); both.clear(); pc_log.clear();
    }
    z3::expr real(double d) {
        if (d == std::floor(d) && std::fabs(d) < 1e15) return ctx.real_val((int64_t)d);
        // decimal rational with 12 fractional digits (constants such as beta and ln(beta); comparisons stay far from the boundary)
        if (std::fabs(d) > 9e5) throw Abort{3};
        std::string q = std::to_string((long long)std::llround(d * 1e12)) + "/1000000000000";
        return ctx.real_val(q.c_str());
    }
    static bool integral(const Lin &l) {
        if (l.k != std::floor(l.k) || std::fabs(l.k) > 1e15) return false;
        for (auto &p : l.c) if (p.second != std::floor(p.second) || std::fabs(p.second) > 1e15) return false;
        return true;
    }
    z3::expr to_expr(const Lin &l) {     // Int-sorted when every coefficient is an integer (pure linear integer arithmetic), else Real-sorted
        if (integral(l)) {
            z3::expr e = ctx.int_val((int64_t)l.k);
            bool first = true;
            for (auto &p : l.c) {
                z3::expr t = p.second == 1 ? vars[p.first] : ctx.int_val((int64_t)p.second) * vars[p.first];
                if (first && l.k == 0) e = t; else e = e + t;
                first = false;
            }
            return e;
        }
        z3::expr e = real(l.k);
        for (auto &p : l.c) e = e + real(p.second) * z3::to_real(vars[p.first]);
        return e;
    }
    z3::expr to_real_expr(const Lin &l) { z3::expr e = to_expr(l); return e.is_int() ? z3::to_real(e) : e; }
    z3::check_result check() {
        auto t0 = std::chrono::steady_clock::now();
        z3::check_result r = solver->check();
        solver_s += std::chrono::duration<double>(std::chrono::steady_clock::now() - t0).count();
        queries++;
        if (r == z3::unknown) unknowns++;
        return r;
    }
    bool sat_with(const z3::expr &c, z3::model **m = nullptr) {   // is pc & c satisfiable (no branch recorded)
        solver->push(); solver->add(c);
        z3::check_result r = check();
        bool s = (r == z3::sat);
        if (s && m) { delete *m; *m = new z3::model(solver->get_model()); }
        solver->pop();
        if (r == z3::unknown) throw Abort{3};
        return s;
    }
    bool decide(const z3::expr &c, const std::string &text) {
        size_t i = trace.size();
        bool want;
        if (i < prefix.size()) {
            want = prefix[i]; solver->add(want ? c : !c); trace.push_back(want); both.push_back(0);
            if (log_pc) pc_log.push_back((want ? "" : "not ") + text);
            shard_check();
            return want;
        }
        bool t = false, f = false; int known = -1;
        if (last) { z3::expr v = last->eval(c, true); if (v.is_true()) known = 1; else if (v.is_false()) known = 0; }
        z3::model *mt = nullptr, *mf = nullptr;
        if (known == 1) t = true; else t = sat_with(c, &mt);
        if (known == 0) f = true; else f = sat_with(!c, &mf);
        if (!t && !f) { delete mt; delete mf; throw Abort{1}; }
        want = t;
        solver->add(want ? c : !c);
        if (want) { if (known != 1) { delete last; last = mt; mt = nullptr; } }
        else { if (known != 0) { delete last; last = mf; mf = nullptr; } }
        delete mt; delete mf;
        trace.push_back(want); both.push_back(t && f);
        if (log_pc) pc_log.push_back((want ? "" : "not ") + text);
        shard_check();
        return want;
    }
    void shard_check() {
        if (nshards > 1 && (int)trace.size() == shard_depth) {
            unsigned h = 0; for (int b : trace) h = h * 31u + (unsigned)b + 7u;
            if ((int)(h % (unsigned)nshards) != shard) throw Abort{2};
        }
    }
};
extern Engine E;

inline std::string lin_text(const Lin &l) {
    std::ostringstream o; o.precision(17);
    bool first = true;
    for (auto &p : l.c) { if (!first) o << " + "; first = false; if (p.second != 1) o << p.second << "*"; o << E.names[p.first]; }
    if (l.k != 0 || first) { if (!first) o << " + "; o << l.k; }
    return o.str();
}

struct Float {
    enum Kind { CONC, LIN, EXP } kind;
    double v;        // CONC value / EXP coefficient (>0)
    Lin l;           // LIN term / EXP argument
    Float() : kind(CONC), v(0) {}
    Float(double d) : kind(CONC), v(d) {}
    Float(const Lin &x) : kind(x.is_const() ? CONC : LIN), v(x.k), l(x) {}
    static Float var(int id) { Lin x; x.c[id] = 1; return Float(x); }
    Lin lin() const { if (kind == CONC) { Lin x; x.k = v; return x; } if (kind == LIN) return l; throw Abort{3}; }
    bool inf() const { return kind == CONC && std::isinf(v); }
    std::string text() const { if (kind == CONC) { std::ostringstream o; o.precision(17); o << v; return o.str(); } if (kind == LIN) return lin_text(l); std::ostringstream o; o.precision(17); o << v << "*exp(" << lin_text(l) << ")"; return o.str(); }
};
inline Float operator+(const Float &a, const Float &b) {
    if (a.kind == Float::EXP || b.kind == Float::EXP) throw Abort{3};
    if (a.kind == Float::CONC && b.kind == Float::CONC) return Float(a.v + b.v);
    if (a.inf()) return a; if (b.inf()) return b;
    return Float(a.lin() + b.lin());
}
inline Float operator-(const Float &a) { if (a.kind == Float::EXP) throw Abort{3}; if (a.kind == Float::CONC) return Float(-a.v); return Float(-a.l); }
inline Float operator-(const Float &a, const Float &b) { return a + (-b); }
inline Float &operator+=(Float &a, const Float &b) { a = a + b; return a; }
inline Float operator*(const Float &a, const Float &b) {
    if (a.kind == Float::CONC && b.kind == Float::CONC) return Float(a.v * b.v);
    const Float &s = a.kind == Float::CONC ? b : a; const Float &c = a.kind == Float::CONC ? a : b;
    if (c.kind != Float::CONC) throw Abort{3};                 // symbolic * symbolic: not linear
    if (s.kind == Float::EXP) { if (c.v <= 0) throw Abort{3}; Float r = s; r.v = s.v * c.v; return r; }
    return Float(scale(s.l, c.v));
}
// op: 0 <, 1 <=, 2 >, 3 >=
inline z3::expr rel(const z3::expr &x, const z3::expr &y, int op) { switch (op) { case 0: return x < y; case 1: return x <= y; case 2: return x > y; default: return x >= y; } }
inline z3::expr rel0(const z3::expr &x, int op) { switch (op) { case 0: return x < 0; case 1: return x <= 0; case 2: return x > 0; default: return x >= 0; } }
inline const char *opname(int op) { static const char *n[] = {"<", "<=", ">", ">="}; return n[op]; }
// d op 0 for a term with integer variable coefficients and a possibly non-integer constant: tightened to pure integer arithmetic
inline z3::expr rel_lin(const Lin &d, int op) {
    Lin v = d; double k = v.k; v.k = 0;
    if (!Engine::integral(v)) return rel0(E.to_expr(d), op);
    z3::expr D = E.to_expr(v);                       // integer-valued
    double nk = -k;                                  // D op nk
    switch (op) {
        case 0: return D <= E.ctx.int_val((int64_t)std::ceil(nk) - 1);      // D <  nk
        case 1: return D <= E.ctx.int_val((int64_t)std::floor(nk));         // D <= nk
        case 2: return D >= E.ctx.int_val((int64_t)std::floor(nk) + 1);     // D >  nk
        default: return D >= E.ctx.int_val((int64_t)std::ceil(nk));         // D >= nk
    }
}
inline z3::expr lt0(const Lin &d) { return rel_lin(d, 0); }
inline z3::expr exp_term(const Float &e) {     // uninterpreted positive function with exp(t) <= 1 for t <= 0 and monotonicity handled by exp/exp rewriting
    z3::func_decl f = E.ctx.function("EXP", E.ctx.real_sort(), E.ctx.real_sort());
    z3::expr arg = E.to_real_expr(e.l);
    z3::expr app = f(arg);
    E.solver->add(app > 0);
    E.solver->add(z3::implies(arg <= 0, app <= 1));
    E.solver->add(z3::implies(arg >= 0, app >= 1));
    return E.real(e.v) * app;
}
inline bool cmp(const Float &a, const Float &b, int op) {
    if (a.kind == Float::CONC && b.kind == Float::CONC) { switch (op) { case 0: return a.v < b.v; case 1: return a.v <= b.v; case 2: return a.v > b.v; default: return a.v >= b.v; } }
    // +-inf and +-FLT_MAX (numeric_limits<float>::lowest()/max()) bound every symbolic score: inputs are finite float32 values strictly inside the range
    auto huge = [](const Float &f) { return f.kind == Float::CONC && (std::isinf(f.v) || std::fabs(f.v) >= (double)FLT_MAX); };
    if (huge(a)) return a.v < 0 ? (op == 0 || op == 1) : (op == 2 || op == 3);
    if (huge(b)) return b.v < 0 ? (op == 2 || op == 3) : (op == 0 || op == 1);
    std::string text = a.text() + " " + opname(op) + " " + b.text();
    if ((a.kind == Float::EXP && b.kind == Float::CONC) || (a.kind == Float::CONC && b.kind == Float::EXP)) {
        // c*e^x against a constant: exact.  A non-positive constant is below every non-zero float32 value of e^x (and equal to an underflowed one
        // only if it is 0); a positive constant v is v*e^0, handled by the exp/exp case below
        const Float &cst = a.kind == Float::CONC ? a : b;
        if (cst.v > 0) {
            Float c2; c2.kind = Float::EXP; c2.v = cst.v; c2.l = Lin();
            return a.kind == Float::CONC ? cmp(c2, b, op) : cmp(a, c2, op);
        }
        const Float &e = a.kind == Float::EXP ? a : b;
        bool exp_is_left = a.kind == Float::EXP;
        if (cst.v < 0) return exp_is_left ? (op == 2 || op == 3) : (op == 0 || op == 1);
        Lin t = e.l; t.k += std::log(e.v) - (-103.972);
        bool zero = t.is_const() ? t.k < 0 : E.decide(lt0(t), "underflow(" + e.text() + ")");
        if (zero) return op == 1 || op == 3;                                         // 0 op 0
        return exp_is_left ? (op == 2 || op == 3) : (op == 0 || op == 1);            // positive op 0 / 0 op positive
    }
    if (a.kind == Float::EXP && b.kind == Float::EXP) {
        // float32 semantics of expf and of the product with beta: the value is exactly 0 when ln(value) < ln(2^-150) = -103.972
        // (below half the smallest denormal); otherwise  ca*e^x op cb*e^y  <=>  x - y op ln(cb/ca)  (denormal precision is ignored)
        const double UF = -103.972;
        auto is_zero = [&](const Float &e) {
            Lin t = e.l; t.k += std::log(e.v) - UF;           // ln(value) - UF < 0
            if (t.is_const()) return t.k < 0;
            return E.decide(lt0(t), "underflow(" + e.text() + ")");
        };
        bool za = is_zero(a), zb = is_zero(b);
        if (za && zb) return op == 1 || op == 3;              // 0 op 0
        if (za) return op == 0 || op == 1;                    // 0 op positive
        if (zb) return op == 2 || op == 3;                    // positive op 0
        Lin d = a.l - b.l; d.k -= std::log(b.v / a.v);
        if (d.is_const()) { switch (op) { case 0: return d.k < 0; case 1: return d.k <= 0; case 2: return d.k > 0; default: return d.k >= 0; } }
        return E.decide(rel_lin(d, op), text);
    }
    if (a.kind == Float::EXP || b.kind == Float::EXP) {
        z3::expr x = a.kind == Float::EXP ? exp_term(a) : E.to_real_expr(a.lin());
        z3::expr y = b.kind == Float::EXP ? exp_term(b) : E.to_real_expr(b.lin());
        return E.decide(rel(x, y, op), text);
    }
    Lin d = a.lin() - b.lin();
    if (d.is_const()) { switch (op) { case 0: return d.k < 0; case 1: return d.k <= 0; case 2: return d.k > 0; default: return d.k >= 0; } }
    return E.decide(rel_lin(d, op), text);
}
inline bool operator<(const Float &a, const Float &b) { return cmp(a, b, 0); }
inline bool operator<=(const Float &a, const Float &b) { return cmp(a, b, 1); }
inline bool operator>(const Float &a, const Float &b) { return cmp(a, b, 2); }
inline bool operator>=(const Float &a, const Float &b) { return cmp(a, b, 3); }
inline bool operator==(const Float &a, const Float &b) { return cmp(a, b, 1) && cmp(a, b, 3); }     // two decisions: <= and >=
inline bool operator!=(const Float &a, const Float &b) { return !(a == b); }
}  // namespace sym

namespace std {
template <> struct numeric_limits<sym::Float> {       // the float32 constants of the real type
    static constexpr bool is_specialized = true, has_infinity = true;
    static sym::Float lowest() { return sym::Float(-(double)FLT_MAX); }
    static sym::Float max() { return sym::Float((double)FLT_MAX); }
    static sym::Float min() { return sym::Float((double)FLT_MIN); }
    static sym::Float epsilon() { return sym::Float((double)FLT_EPSILON); }
    static sym::Float infinity() { return sym::Float(INFINITY); }
};
inline sym::Float log(const sym::Float &a) {
    if (a.kind == sym::Float::CONC) return sym::Float(std::log(a.v));
    if (a.kind != sym::Float::EXP) throw sym::Abort{3};
    // log(c*e^x) = x + ln c, unless the float32 product underflowed to 0 (then logf gives -inf)
    sym::Lin t = a.l; t.k += std::log(a.v) - (-103.972);
    bool zero = t.is_const() ? t.k < 0 : sym::E.decide(sym::lt0(t), "underflow(" + a.text() + ")");
    if (zero) return sym::Float(-INFINITY);
    sym::Lin r = a.l; r.k += std::log(a.v);
    return sym::Float(r);
}
inline sym::Float exp(const sym::Float &a) {
    if (a.kind == sym::Float::CONC) return sym::Float(std::exp(a.v));
    if (a.kind == sym::Float::EXP) throw sym::Abort{3};
    sym::Float r; r.kind = sym::Float::EXP; r.v = 1.0; r.l = a.l; return r;
}
}  // namespace std
