"""runtime emulating the handful of Cython/C++ constructs used by parsing.pyx"""
import ctypes, numpy
L = None
UINT_MAX = 0xFFFFFFFF
class Config(ctypes.Structure):
    _fields_ = [('num_tags', ctypes.c_uint), ('unary_penalty', ctypes.c_float), ('beta', ctypes.c_float),
                ('use_beta', ctypes.c_bool), ('pruning_size', ctypes.c_uint), ('nbest', ctypes.c_uint), ('max_step', ctypes.c_uint)]
SCAFFOLD = ctypes.CFUNCTYPE(ctypes.c_int, ctypes.c_void_p, ctypes.c_uint, ctypes.c_uint, ctypes.c_void_p)
FINAL = ctypes.CFUNCTYPE(ctypes.c_uint, ctypes.c_void_p, ctypes.POINTER(ctypes.c_uint), ctypes.c_void_p, ctypes.c_void_p)
def load(path):
    global L
    L = ctypes.CDLL(path)
    L.vp_cache_new.restype = ctypes.c_void_p
    L.vp_left.restype = ctypes.c_void_p; L.vp_right.restype = ctypes.c_void_p
    L.vp_score.restype = ctypes.c_float
    for f in ('vp_fin','vp_cat','vp_left','vp_right','vp_rule','vp_score'): getattr(L, f).argtypes = [ctypes.c_void_p]
    L.vp_cache_get.argtypes = [ctypes.c_void_p, ctypes.c_uint, ctypes.c_uint, ctypes.c_uint] + [ctypes.c_void_p]*5
    L.vp_cache_len.argtypes = [ctypes.c_void_p, ctypes.c_uint, ctypes.c_uint]
    L.vp_push.argtypes = [ctypes.c_void_p, ctypes.c_uint, ctypes.c_uint, ctypes.c_int, ctypes.c_char_p, ctypes.c_char_p]
    L.vp_pop_get.argtypes = [ctypes.c_int] + [ctypes.c_void_p] * 5
    assert L.vp_sizeof_config() == ctypes.sizeof(Config), 'config struct layout changed: harness error'
class _Null:
    def __eq__(self, o): return o is None or isinstance(o, _Null)
NULL = _Null()
class Item:
    def __init__(self, p): self.p = p
    fin = property(lambda s: bool(L.vp_fin(s.p)))
    cat = property(lambda s: L.vp_cat(s.p))
    rule_id = property(lambda s: L.vp_rule(s.p))
    @property
    def left(self):
        q = L.vp_left(self.p); return Item(q) if q else None
    @property
    def right(self):
        q = L.vp_right(self.p); return Item(q) if q else None
    def score(self): return L.vp_score(self.p)
class Pair:
    def __init__(self): self.__dict__['first'] = 0; self.__dict__['second'] = 0
    def __setattr__(self, k, v): self.__dict__[k] = int(v) & 0xFFFFFFFF
class CResult:
    pass
class CRView:
    def __init__(self, cat, rule, head, s1, s2): self.cat_id, self.rule_id, self.head_is_left, self.op_string, self.op_symbol = cat, rule, bool(head), s1, s2
class CacheEntry:
    def __init__(self, c, key): self.c, self.key = c, key
    def __getitem__(self, i):
        cat = ctypes.c_uint(); rule = ctypes.c_uint(); head = ctypes.c_int(); s1 = ctypes.c_char_p(); s2 = ctypes.c_char_p()
        r = L.vp_cache_get(self.c, self.key.first, self.key.second, int(i), ctypes.byref(cat), ctypes.byref(rule), ctypes.byref(head), ctypes.byref(s1), ctypes.byref(s2))
        if r != 0: raise IndexError('cache[%r][%r]' % ((self.key.first, self.key.second), i))   # C++ would be UB
        return CRView(cat.value, rule.value, head.value, s1.value, s2.value)
class CacheMap:
    def __init__(self, c): self.c = c
    def __getitem__(self, key): return CacheEntry(self.c, key)
class CachePtr:
    def __init__(self, c=None): self.c = c if c is not None else L.vp_cache_new()
    def __getitem__(self, i): assert i == 0; return CacheMap(self.c)
class ResultsVec:
    def __init__(self, p): self.p = p
    def push_back(self, r):
        L.vp_push(self.p, int(r.cat_id) & 0xFFFFFFFF, int(r.rule_id) & 0xFFFFFFFF, 1 if r.head_is_left else 0, r.op_string, r.op_symbol)
class USet(set):
    def insert(self, v): self.add(int(v) & 0xFFFFFFFF)
def typed_f32_2d(a):
    if not isinstance(a, numpy.ndarray): raise TypeError('Argument has incorrect type')
    if a.dtype != numpy.float32: raise ValueError("Buffer dtype mismatch, expected 'float'")
    if a.ndim != 2: raise ValueError('Buffer has wrong number of dimensions')
    if not a.flags['C_CONTIGUOUS']: raise ValueError('ndarray is not C-contiguous')
    return a
_keep = []
def parse_sentence(tag, dep, length, roots, bcb, ucb, fin_py, scaffold_py, fargs, cache, cfg):
    def sc(cb, x, y, res):
        try: return scaffold_py(ctypes.cast(cb, ctypes.py_object).value, x, y, ResultsVec(res))
        except Exception as e:
            sc.err = e; return -1
    def fin(item, tok, cch, args):
        return fin_py(Item(item), tok, CachePtr(cch), ctypes.cast(args, ctypes.py_object).value)
    csc, cfin = SCAFFOLD(sc), FINAL(fin)
    r = (ctypes.c_uint * len(roots))(*sorted(roots))
    st = L.vp_parse(tag.ctypes.data_as(ctypes.c_void_p), dep.ctypes.data_as(ctypes.c_void_p), ctypes.c_uint(length), r, len(roots),
                    ctypes.c_void_p(id(bcb)), ctypes.c_void_p(id(ucb)), cfin, csc, ctypes.c_void_p(id(fargs)), ctypes.c_void_p(cache.c), ctypes.byref(cfg))
    if st == 0xFFFFFFFF:
        raise getattr(sc, 'err', RuntimeError('c++ exception'))
    return st


def pops():
    """agenda pops of the last parse: list of (score, fin, cat, start, len)"""
    out = []
    for i in range(L.vp_npops()):
        sc = ctypes.c_float(); fin = ctypes.c_int(); cat = ctypes.c_uint(); st = ctypes.c_uint(); ln = ctypes.c_uint()
        L.vp_pop_get(i, ctypes.byref(sc), ctypes.byref(fin), ctypes.byref(cat), ctypes.byref(st), ctypes.byref(ln))
        out.append((sc.value, fin.value, cat.value, st.value, ln.value))
    return out


POP_LOG = []
_orig_parse_sentence = parse_sentence


def parse_sentence(*a, **k):
    st = _orig_parse_sentence(*a, **k)
    POP_LOG.append(pops())
    return st
