"""mechanical translation of depccg/parsing.pyx into Python over cyrt (prototype)"""
import re, sys
def translate(src):
    out = ['import cyrt', 'from cyrt import NULL, UINT_MAX', 'def tqdm(x, **k): return x']
    lines = src.split('\n'); i = 0
    while i < len(lines):
        l = re.sub(r'<(object|void\*|float\*)>', '', lines[i]); s = l.strip(); ind = l[:len(l) - len(l.lstrip())]
        if s.startswith('cdef extern'):
            i += 1
            while i < len(lines) and (lines[i].strip() == '' or lines[i].startswith((' ', '\t'))): i += 1
            continue
        if re.match(r'(from \S+ )?cimport ', s) or s.startswith('from tqdm import'): i += 1; continue
        m = re.match(r'cdef (?:\w+ )?(\w+)\((.*)', s)
        if m and not s.startswith('cdef extern'):      # cdef function header (may span lines)
            hdr = s
            while not hdr.rstrip().endswith(':'): i += 1; hdr += ' ' + lines[i].strip()
            name = m.group(1); args = hdr[hdr.index('(') + 1: hdr.rindex(')')]
            names = [re.split(r'[\s\*]+', a.strip().rstrip(','))[-1] for a in args.split(',') if a.strip()]
            out.append(f'{ind}def {name}({", ".join(names)}):'); i += 1; continue
        if s.startswith('def ') :
            hdr = l
            while not hdr.rstrip().endswith(':'): i += 1; hdr += '\n' + lines[i]
            hdr = re.sub(r'\b(list|dict|object|unsigned|int) (\w+)', r'\2', hdr)
            out.append(hdr); i += 1; continue
        m = re.match(r'cdef (.+)$', s)
        if m:
            decl = m.group(1)
            if decl.startswith('pair['): out.append(f'{ind}{decl.split()[-1]} = cyrt.Pair()')
            elif decl.startswith('combinator_result '): out.append(f'{ind}{decl.split()[-1]} = cyrt.CResult()')
            elif decl.startswith('unordered_set['): out.append(f'{ind}{decl.split()[-1]} = cyrt.USet()')
            elif decl.startswith('cache_type '): out.append(f'{ind}{decl.split()[-1]} = cyrt.CachePtr()')
            elif decl.startswith('config '): out.append(f'{ind}{decl.split()[-1]} = cyrt.Config()')
            elif decl.startswith('np.ndarray['): out.append(f'{ind}pass')
            elif '=' in decl: out.append(ind + re.sub(r'^(object|list|dict|unsigned|int|bint|float) ', '', decl))
            else: out.append(f'{ind}pass')
            i += 1; continue
        l = re.sub(r'<(object|void\*|float\*)>', '', l)
        l = re.sub(r'&(c_\w+)', r'\1', l)
        l = l.replace('status = parse_sentence(', 'status = cyrt.parse_sentence(')
        l = re.sub(r'= (\w+)\.data$', r'= cyrt.typed_f32_2d(\1)', l)
        out.append(l); i += 1
    return '\n'.join(out)
if __name__ == '__main__':
    print(translate(open(sys.argv[1]).read()))
