// Engine N: depccg/parsing.h compiled as is (real float) behind an extern "C" shim; the agenda container is substituted by the
// same pop recorder as in Engine A (arithmetic untouched) so that native pops can be compared with the symbolic record.
#include <climits>
#include <cstring>
#include <queue>
#include <vector>
namespace std {
template <class T> void verif_on_pop(const T &) {}
template <class T> class verif_pq : public priority_queue<T> {
  public:
    void pop() { verif_on_pop(this->top()); priority_queue<T>::pop(); }
};
}
#define priority_queue verif_pq
#include "parsing.h"
#undef priority_queue
using parsing::cell_item;
struct PopRec { float score; int fin; unsigned cat, start, len; };
static std::vector<PopRec> g_pops;
namespace parsing { void verif_on_pop(const cell_item &it) { g_pops.push_back({it.score(), it.fin, it.cat, it.start_of_span, it.span_length}); } }
extern "C" {
unsigned vp_parse(float *tag, float *dep, unsigned n, const unsigned *roots, unsigned nroots, void *bcb, void *ucb,
                  finalizer_type fin, scaffold_type sc, void *fa, cache_type *cache, config *cfg) {
    std::unordered_set<unsigned> r(roots, roots + nroots);
    g_pops.clear();
    try { return parse_sentence(tag, dep, n, r, bcb, ucb, fin, sc, fa, cache, cfg); }
    catch (std::exception &e) { return 0xFFFFFFFFu; }
}
cache_type *vp_cache_new() { return new cache_type(); }
void vp_cache_free(cache_type *c) { delete c; }
int vp_cache_len(cache_type *c, unsigned a, unsigned b) { auto it = c->find({a, b}); return it == c->end() ? -1 : (int)it->second.size(); }
int vp_cache_size(cache_type *c) { return (int)c->size(); }
int vp_cache_get(cache_type *c, unsigned a, unsigned b, unsigned i, unsigned *cat, unsigned *rule, int *head, const char **s1, const char **s2) {
    auto it = c->find({a, b}); if (it == c->end() || i >= it->second.size()) return -1;
    auto &r = it->second[i]; *cat = r.cat_id; *rule = r.rule_id; *head = r.head_is_left; *s1 = r.op_string.c_str(); *s2 = r.op_symbol.c_str(); return 0; }
void vp_push(std::vector<combinator_result> *v, unsigned c, unsigned r, int h, const char *a, const char *b) { v->push_back({c, r, (bool)h, a, b}); }
int vp_fin(cell_item *i) { return i->fin; }
unsigned vp_cat(cell_item *i) { return i->cat; }
cell_item *vp_left(cell_item *i) { return i->left; }
cell_item *vp_right(cell_item *i) { return i->right; }
unsigned vp_rule(cell_item *i) { return i->rule_id; }
float vp_score(cell_item *i) { return i->score(); }
unsigned vp_sizeof_config() { return sizeof(config); }
int vp_npops() { return (int)g_pops.size(); }
void vp_pop_get(int i, float *score, int *fin, unsigned *cat, unsigned *start, unsigned *len) { auto &p = g_pops[i]; *score = p.score; *fin = p.fin; *cat = p.cat; *start = p.start; *len = p.len; }
}
