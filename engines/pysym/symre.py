"""Backtracking regex matcher over code point sequences, driven by re._parser's parse of the same pattern text.
Concrete subjects go to the real `re`; symbolic ones are matched here, forking on character tests."""
import re as _re
import re._parser as sp
import re._constants as sc
import z3
from .core import SymBool, SymStr, chars_of, mk, truth, Unsupported, is_sym, char_eq

_WORD_RANGES = None


def _word_ranges():
    global _WORD_RANGES
    if _WORD_RANGES is None:
        rg, start = [], None
        for c in range(0x20000):
            w = chr(c).isalnum() or c == 95
            if w and start is None:
                start = c
            elif not w and start is not None:
                rg.append((start, c - 1))
                start = None
        if start is not None:
            rg.append((start, 0x1FFFF))
        _WORD_RANGES = rg
    return _WORD_RANGES


_SPACE = (9, 10, 11, 12, 13, 28, 29, 30, 31, 32, 133, 160, 0x1680, 0x2000, 0x2001, 0x2002, 0x2003, 0x2004, 0x2005,
          0x2006, 0x2007, 0x2008, 0x2009, 0x200a, 0x2028, 0x2029, 0x202f, 0x205f, 0x3000)


def cc_test(c, items):
    neg = False
    alts = []
    for op, av in items:
        if op is sc.NEGATE:
            neg = True
        elif op is sc.LITERAL:
            alts.append((av, av))
        elif op is sc.RANGE:
            alts.append(av)
        elif op is sc.CATEGORY:
            if av is sc.CATEGORY_WORD:
                alts += _word_ranges()
            elif av is sc.CATEGORY_SPACE:
                alts += [(v, v) for v in _SPACE]
            elif av is sc.CATEGORY_DIGIT:
                alts.append((48, 57))      # exact for the ASCII-only digit alphabets used; non-ASCII digits rejected below
                if not isinstance(c, int):
                    raise Unsupported('\\d on symbolic character')
            else:
                raise Unsupported(str(av))
        else:
            raise Unsupported(str(op))
    if isinstance(c, int):
        if any(op is sc.CATEGORY for op, _ in items):
            return (_re.match(_class_src(items), chr(c)) is not None)
        return any(lo <= c <= hi for lo, hi in alts) != neg
    if any(op is sc.CATEGORY and av is sc.CATEGORY_WORD for op, av in items):
        from .core import E
        if not E.must(c < 0x20000):
            raise Unsupported('\\w on a code point above 0x1FFFF')
    from .core import E
    dom = E.domains.get(c.get_id())
    if dom is not None:
        alts = [(lo, hi) for lo, hi in alts if lo != hi or dom.ok(lo)]
        if not alts:
            return neg
    e = z3.Or(*[(c == lo) if lo == hi else z3.And(c >= lo, c <= hi) for lo, hi in alts])
    return SymBool(z3.Not(e) if neg else e)


def _class_src(items):
    out = '['
    for op, av in items:
        if op is sc.NEGATE:
            out += '^'
        elif op is sc.LITERAL:
            out += _re.escape(chr(av))
        elif op is sc.RANGE:
            out += _re.escape(chr(av[0])) + '-' + _re.escape(chr(av[1]))
        elif op is sc.CATEGORY:
            out += {sc.CATEGORY_WORD: r'\w', sc.CATEGORY_SPACE: r'\s', sc.CATEGORY_DIGIT: r'\d'}[av]
    return out + ']'


def m_seq(ops, i, s, pos, groups):
    """generator of (end, groups) for ops[i:] matched at pos, in backtracking order"""
    if i == len(ops):
        yield pos, groups
        return
    op, av = ops[i]
    if op in (sc.LITERAL, sc.NOT_LITERAL, sc.IN, sc.ANY):
        if pos >= len(s):
            return
        c = s[pos]
        if op is sc.LITERAL:
            r = char_eq(c, av)
        elif op is sc.NOT_LITERAL:
            r = (c != av) if isinstance(c, int) else SymBool(c != av)
        elif op is sc.ANY:
            r = (c != 10) if isinstance(c, int) else SymBool(c != 10)
        else:
            r = cc_test(c, av)
        if truth(r):
            yield from m_seq(ops, i + 1, s, pos + 1, groups)
        return
    if op is sc.SUBPATTERN:
        gid, add_flags, del_flags, sub = av
        if add_flags or del_flags:
            raise Unsupported('inline flags')
        for e, g in m_seq(list(sub), 0, s, pos, groups):
            g2 = dict(g)
            if gid is not None:
                g2[gid] = (pos, e)
            yield from m_seq(ops, i + 1, s, e, g2)
        return
    if op in (sc.MAX_REPEAT, sc.MIN_REPEAT):
        lo, hi, sub = av
        sub = list(sub)
        greedy = op is sc.MAX_REPEAT

        def rep(count, p, g):
            def more():
                if hi is sc.MAXREPEAT or count < hi:
                    for e, g2 in m_seq(sub, 0, s, p, g):
                        if e == p and count >= lo:
                            continue
                        yield from rep(count + 1, e, g2)

            def stop():
                if count >= lo:
                    yield from m_seq(ops, i + 1, s, p, g)
            if greedy:
                yield from more()
                yield from stop()
            else:
                yield from stop()
                yield from more()
        yield from rep(0, pos, groups)
        return
    if op is sc.BRANCH:
        for alt in av[1]:
            for e, g in m_seq(list(alt), 0, s, pos, groups):
                yield from m_seq(ops, i + 1, s, e, g)
        return
    if op is sc.AT:
        if av in (sc.AT_BEGINNING, sc.AT_BEGINNING_STRING):
            ok = pos == 0
        elif av is sc.AT_END_STRING:
            ok = pos == len(s)
        elif av is sc.AT_END:
            ok = pos == len(s)
            if not ok and pos == len(s) - 1:
                c = s[pos]
                ok = truth((c == 10) if isinstance(c, int) else SymBool(c == 10))
        else:
            raise Unsupported(str(av))
        if ok:
            yield from m_seq(ops, i + 1, s, pos, groups)
        return
    raise Unsupported(str(op))


def _parse(pattern):
    p = sp.parse(pattern)
    if p.state.flags & ~(_re.UNICODE.value):
        raise Unsupported('regex flags')
    return list(p)


def finditer(pattern, string):
    ops = _parse(pattern)
    s = chars_of(string)
    pos = 0
    while pos <= len(s):
        hit = None
        for e, g in m_seq(ops, 0, s, pos, {}):
            hit = (e, g)
            break
        if hit is None:
            pos += 1
            continue
        yield pos, hit[0], hit[1]
        pos = hit[0] if hit[0] > pos else pos + 1


def _expand(repl, s, a, b, g):
    out = []
    j = 0
    while j < len(repl):
        ch = repl[j]
        if ch == '\\':
            if j + 1 >= len(repl):
                raise Unsupported('bad escape in replacement')
            nx = repl[j + 1]
            if nx.isdigit():
                ga, gb = g.get(int(nx), (0, 0))
                out.extend(s[ga:gb])
                j += 2
            elif nx == '\\':
                out.append(92)
                j += 2
            elif nx == 'n':
                out.append(10)
                j += 2
            else:
                raise Unsupported('escape \\%s in replacement' % nx)
        else:
            out.append(ord(ch))
            j += 1
    return out


def sub(pattern, repl, string, count=0):
    if not is_sym(string):
        return _re.sub(pattern, repl, string, count)
    if not isinstance(repl, str) or is_sym(repl):
        raise Unsupported('callable/symbolic replacement')
    s = chars_of(string)
    out = []
    last = 0
    n = 0
    for a, b, g in finditer(pattern, string):
        out.extend(s[last:a])
        out.extend(_expand(repl, s, a, b, g))
        last = b
        n += 1
        if count and n >= count:
            break
    out.extend(s[last:])
    return mk(out)


def findall(pattern, string):
    if not is_sym(string):
        return _re.findall(pattern, string)
    ngroups = sp.parse(pattern).state.groups - 1
    s = chars_of(string)
    res = []
    for a, b, g in finditer(pattern, string):
        if ngroups == 0:
            res.append(mk(s[a:b]))
        elif ngroups == 1:
            ga, gb = g.get(1, (0, 0))
            res.append(mk(s[ga:gb]))
        else:
            res.append(tuple(mk(s[slice(*g.get(k, (0, 0)))]) for k in range(1, ngroups + 1)))
    return res


def split(pattern, string, maxsplit=0):
    if not is_sym(string):
        return _re.split(pattern, string, maxsplit)
    ngroups = sp.parse(pattern).state.groups - 1
    s = chars_of(string)
    res, last, n = [], 0, 0
    for a, b, g in finditer(pattern, string):
        if maxsplit and n >= maxsplit:
            break
        res.append(mk(s[last:a]))
        for k in range(1, ngroups + 1):
            res.append(mk(s[slice(*g[k])]) if k in g else None)
        last = b
        n += 1
    res.append(mk(s[last:]))
    return res


class SymMatch:
    def __init__(self, s, a, b, g):
        self.s, self.a, self.b, self.g = s, a, b, g

    def group(self, k=0):
        if k == 0:
            return mk(self.s[self.a:self.b])
        if k not in self.g:
            return None
        return mk(self.s[slice(*self.g[k])])

    def start(self):
        return self.a

    def end(self):
        return self.b


def match(pattern, string, full=False):
    if not is_sym(string):
        return _re.fullmatch(pattern, string) if full else _re.match(pattern, string)
    ops = _parse(pattern)
    s = chars_of(string)
    for e, g in m_seq(ops, 0, s, 0, {}):
        if full and e != len(s):
            continue
        return SymMatch(s, 0, e, g)
    return None


class PatProxy:
    def __init__(self, p):
        self._p = p
        self.pattern = p.pattern
        if p.flags & ~_re.UNICODE.value:
            raise Unsupported('compiled pattern with flags')

    def sub(self, repl, s, count=0):
        return sub(self.pattern, repl, s, count)

    def findall(self, s):
        return findall(self.pattern, s)

    def split(self, s, maxsplit=0):
        return split(self.pattern, s, maxsplit)

    def match(self, s):
        return match(self.pattern, s)

    def fullmatch(self, s):
        return match(self.pattern, s, True)

    def search(self, s):
        if not is_sym(s):
            return self._p.search(s)
        for a, b, g in finditer(self.pattern, s):
            return SymMatch(chars_of(s), a, b, g)
        return None


class ReModule:
    """stands in for the `re` module inside instrumented modules"""

    def __getattr__(self, n):
        return getattr(_re, n)

    @staticmethod
    def compile(p, flags=0):
        if flags:
            raise Unsupported('re.compile flags')
        return PatProxy(_re.compile(p))

    sub = staticmethod(sub)
    findall = staticmethod(findall)
    split = staticmethod(split)

    @staticmethod
    def match(p, s, flags=0):
        return match(p, s)

    @staticmethod
    def fullmatch(p, s, flags=0):
        return match(p, s, True)

    @staticmethod
    def search(p, s, flags=0):
        return PatProxy(_re.compile(p)).search(s)


RE = ReModule()
