"""Import hook: loads depccg modules from the current /repo source through a semantics-preserving AST rewrite
(see DESIGN §4), installs inert stubs for absent third-party packages, harvests string literals."""
import ast
import builtins
import importlib.abc
import importlib.machinery
import importlib.util
import os
import re as _re
import sys
import types

from . import core, symre

REPO = os.environ.get('VERIF_REPO', '/repo')

MISSING = ('nltk', 'simplejson', 'yaml', 'tqdm', 'chainer', 'allennlp', 'torch', 'overrides', 'spacy', 'janome',
           'google_drive_downloader', 'Cython', 'cython', 'six', 'jnius', 'spacy_transformers')


class _Any:
    def __init__(self, *a, **k):
        pass

    def __call__(self, *a, **k):
        return _Any()

    def __getattr__(self, n):
        if n.startswith('__') and n.endswith('__'):
            raise AttributeError(n)
        return _Any()

    def __mro_entries__(self, bases):
        return (object,)

    def __iter__(self):
        return iter(())

    def __getitem__(self, k):
        return _Any()


class _Mod(types.ModuleType):
    __path__ = []

    def __getattr__(self, n):
        if n.startswith('__') and n.endswith('__'):
            raise AttributeError(n)
        return _Any()


def _tqdm(x=None, *a, **k):
    return x


class StubFinder(importlib.abc.MetaPathFinder, importlib.abc.Loader):
    def find_spec(self, name, path, target=None):
        top = name.split('.')[0]
        if top in MISSING or name.startswith(('depccg.chainer', 'depccg.allennlp')):
            if top in sys.modules and not isinstance(sys.modules[top], _Mod) and top in MISSING:
                return None
            return importlib.machinery.ModuleSpec(name, self, is_package=True)
        return None

    def create_module(self, spec):
        m = _Mod(spec.name)
        if spec.name == 'tqdm':
            m.tqdm = _tqdm
        return m

    def exec_module(self, m):
        pass


def install_stubs():
    if not any(isinstance(f, StubFinder) for f in sys.meta_path):
        # only stub what is really absent
        global MISSING
        present = []
        for n in MISSING:
            try:
                if importlib.util.find_spec(n) is not None:
                    present.append(n)
            except (ImportError, ValueError):
                pass
        MISSING = tuple(n for n in MISSING if n not in present)
        sys.meta_path.insert(0, StubFinder())
    if REPO not in sys.path:
        sys.path.insert(0, REPO)


METHODS = set(core.STR_METHODS) | {'get', 'pop'}


class Rewriter(ast.NodeTransformer):
    def visit_JoinedStr(self, n):
        self.generic_visit(n)
        parts = []
        for v in n.values:
            if isinstance(v, ast.Constant):
                parts.append(v)
            else:
                spec = v.format_spec if v.format_spec is not None else ast.Constant('')
                parts.append(ast.Call(ast.Name('__sym_fmt__', ast.Load()),
                                      [v.value, ast.Constant(v.conversion), spec], []))
        return ast.copy_location(ast.Call(ast.Name('__sym_join__', ast.Load()), [ast.List(parts, ast.Load())], []), n)

    def visit_Compare(self, n):
        self.generic_visit(n)
        if len(n.ops) == 1 and isinstance(n.ops[0], (ast.In, ast.NotIn)):
            c = ast.Call(ast.Name('__sym_in__', ast.Load()), [n.left, n.comparators[0]], [])
            if isinstance(n.ops[0], ast.NotIn):
                c = ast.UnaryOp(ast.Not(), c)
            return ast.copy_location(c, n)
        if any(isinstance(o, (ast.In, ast.NotIn)) for o in n.ops):
            raise core.Unsupported('chained comparison with `in`')
        return n

    def visit_Call(self, n):
        self.generic_visit(n)
        f = n.func
        if isinstance(f, ast.Name) and f.id == 'str' and len(n.args) == 1 and not n.keywords:
            return ast.copy_location(ast.Call(ast.Name('__sym_str__', ast.Load()), n.args, []), n)
        if isinstance(f, ast.Name) and f.id == 'print':
            n.func = ast.copy_location(ast.Name('__sym_print__', ast.Load()), f)
            return n
        if isinstance(f, ast.Attribute) and f.attr in METHODS:
            n.func = ast.copy_location(
                ast.Call(ast.Name('__sym_method__', ast.Load()), [f.value, ast.Constant(f.attr)], []), f)
        return n

    def visit_BinOp(self, n):
        self.generic_visit(n)
        if isinstance(n.op, (ast.BitAnd, ast.BitOr, ast.BitXor, ast.Sub)):
            op = {ast.BitAnd: '&', ast.BitOr: '|', ast.BitXor: '^', ast.Sub: '-'}[type(n.op)]
            return ast.copy_location(ast.Call(ast.Name('__sym_setop__', ast.Load()), [ast.Constant(op), n.left, n.right], []), n)
        return n

    def visit_Set(self, n):
        self.generic_visit(n)
        return ast.copy_location(ast.Call(ast.Name('__sym_mkset__', ast.Load()), [n], []), n)

    def visit_SetComp(self, n):
        self.generic_visit(n)
        return ast.copy_location(ast.Call(ast.Name('__sym_mkset__', ast.Load()), [n], []), n)

    def visit_Subscript(self, n):
        self.generic_visit(n)
        if isinstance(n.ctx, ast.Load) and not isinstance(n.slice, (ast.Slice, ast.Tuple)):
            return ast.copy_location(
                ast.Call(ast.Name('__sym_getitem__', ast.Load()), [n.value, n.slice], []), n)
        return n


PREFIXES = ('depccg',)
EXCLUDE = ('depccg.chainer', 'depccg.allennlp', 'depccg._parsing', 'depccg.morpha')

LITERALS = {}          # module name -> sorted list of string constants
SOURCES = {}           # module name -> path
POST_EXEC = []         # callbacks (module) applied after exec


def _docstring_nodes(tree):
    ids = set()
    for node in ast.walk(tree):
        if isinstance(node, (ast.Module, ast.FunctionDef, ast.ClassDef, ast.AsyncFunctionDef)):
            b = node.body
            if b and isinstance(b[0], ast.Expr) and isinstance(b[0].value, ast.Constant) and isinstance(b[0].value.value, str):
                ids.add(id(b[0].value))
    return ids


def harvest(tree):
    doc = _docstring_nodes(tree)
    out = set()
    for node in ast.walk(tree):
        if isinstance(node, ast.Constant) and isinstance(node.value, str) and id(node) not in doc:
            out.add(node.value)
    return sorted(out)


class Loader(importlib.abc.Loader):
    def __init__(self, name, path):
        self.name, self.path = name, path

    def create_module(self, spec):
        return None

    def exec_module(self, m):
        src = open(self.path, encoding='utf-8').read()
        import warnings
        with warnings.catch_warnings():
            warnings.simplefilter('ignore')
            tree = ast.parse(src, self.path)
        LITERALS[self.name] = harvest(tree)
        SOURCES[self.name] = self.path
        tree = Rewriter().visit(tree)
        import warnings
        warnings.filterwarnings('ignore', category=SyntaxWarning)
        ast.fix_missing_locations(tree)
        d = m.__dict__
        d.update(__sym_join__=core.sym_join, __sym_fmt__=core.sym_fmt, __sym_in__=core.sym_in,
                 __sym_str__=core.sym_str, __sym_method__=core.sym_method, __sym_getitem__=core.sym_getitem,
                 __sym_print__=core.sym_print, __sym_setop__=_make_setop(d), __sym_mkset__=_make_mkset(d))
        import warnings
        with warnings.catch_warnings():
            warnings.simplefilter('ignore')
            code = compile(tree, self.path, 'exec')
        exec(code, d)
        fixup(m)
        for cb in POST_EXEC:
            cb(m)


def _wrap_set(d, r):
    """sets created by instrumented code take the module's `set` class (equality-scan membership; iteration order symbolic where
    a check installs the order-symbolic class), whatever expression created them"""
    if type(r) in (set, frozenset):
        cls = d.get('set', core.SymSet)
        if cls is not set and cls is not builtins.set:
            return cls(r)
    return r


def _make_setop(d):
    import operator
    ops = {'&': operator.and_, '|': operator.or_, '^': operator.xor, '-': operator.sub}

    def setop(op, a, b):
        return _wrap_set(d, ops[op](a, b))
    return setop


def _make_mkset(d):
    def mkset(r):
        return _wrap_set(d, r)
    return mkset


def fixup(m):
    d = m.__dict__
    import io
    for k, v in list(d.items()):
        if isinstance(v, _re.Pattern):
            d[k] = symre.PatProxy(v)
        elif v is _re:
            d[k] = symre.RE
        elif v is io.StringIO:
            d[k] = core.SymStringIO
    d.setdefault('set', core.SymSet)
    from . import stubs
    stubs.install(m)
    from . import state
    state.register(m)


class Finder(importlib.abc.MetaPathFinder):
    def find_spec(self, name, path, target=None):
        if not name.startswith(PREFIXES) or name.startswith(EXCLUDE):
            return None
        if name != 'depccg' and not name.startswith('depccg.'):
            return None
        base = os.path.join(REPO, *name.split('.'))
        if os.path.isdir(base):
            init = os.path.join(base, '__init__.py')
            if not os.path.exists(init):
                return None
            return importlib.util.spec_from_file_location(name, init, loader=Loader(name, init),
                                                          submodule_search_locations=[base])
        if os.path.exists(base + '.py'):
            return importlib.util.spec_from_file_location(name, base + '.py', loader=Loader(name, base + '.py'))
        return None


def install(instrument=True):
    install_stubs()
    if instrument and not any(isinstance(f, Finder) for f in sys.meta_path):
        for n in list(sys.modules):
            if n == 'depccg' or n.startswith('depccg.'):
                raise RuntimeError('depccg already imported before instrumentation')
        sys.meta_path.insert(0, Finder())


def harvest_files(relpaths):
    """string literals of repo files without importing them"""
    out = set()
    for rp in relpaths:
        p = os.path.join(REPO, rp)
        out.update(harvest(ast.parse(open(p, encoding='utf-8').read(), p)))
    return sorted(out)


def collapse_hashes():
    """symbolic runs only: categories/features hash to a constant, so dict/set lookups keyed by them become equality scans
    (coherence of the real __hash__ with __eq__ is C13's obligation, checked with the real hash)"""
    def cb(m):
        if m.__name__ == 'depccg.cat':
            for n in ('Atom', 'Functor', 'UnaryFeature', 'TernaryFeature'):
                setattr(getattr(m, n), '__hash__', lambda self: 7)
    POST_EXEC.append(cb)
    if 'depccg.cat' in sys.modules and isinstance(getattr(sys.modules['depccg.cat'], '__loader__', None), Loader):
        cb(sys.modules['depccg.cat'])
