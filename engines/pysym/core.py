"""Engine P core: proxy-based symbolic execution of depccg's Python modules on z3.

Strings are `SymStr` (subclass of `str`) holding a tuple of code points, each an `int` or a z3 Int
expression; lengths are concrete.  Every branch on a symbolic condition goes through
`Engine.decide`, which asks z3 which outcomes are consistent with the path condition and records
the alternative for the prefix-replay DFS in explore.py.
"""
import os
import re
import time
import z3


class Abort(BaseException):
    """infeasible path / budget: not a verdict"""


class Unsupported(BaseException):
    """the engine cannot model an operation: harness error, never a verdict"""


class Engine:
    def __init__(self):
        self.solver = None
        self.prefix = []
        self.trace = []
        self.both = []
        self.queries = 0
        self.solver_s = 0.0
        self.unknowns = 0
        self.model = None
        self.active = False
        self.force_sym = False      # keep SymStr even when all code points are concrete (self-validation mode)
        self.max_decisions = 4000
        self.cache = {}
        self.domains = {}
        self.keep = []
        # second-solver cross-check: every dump_every-th query is written as SMT-LIB2 with z3's verdict (framework re-discharges them)
        self.dump_dir = os.environ.get('VERIF_SMT_DUMP_DIR')
        self.dump_every = int(os.environ.get('VERIF_SMT_DUMP_EVERY', '0') or 0)
        self.dump_cap = int(os.environ.get('VERIF_SMT_DUMP_CAP', '6') or 0)     # per obligation
        self.dumped = 0

    def _dump(self, assumptions, r):
        try:
            s2 = z3.Solver()
            s2.add(self.solver.assertions())
            s2.add(*assumptions)
            names = {}
            # input variables are named name|index|domain (may hold '|' and backslashes, which z3 escapes and SMT-LIB forbids): rename
            text = re.sub(r'\|(?:[^|\\]|\\.)*\|', lambda m: names.setdefault(m.group(0), 'v%d' % len(names)), s2.to_smt2())
            f = os.path.join(self.dump_dir, 'q_%d_%d_%s.smt2' % (os.getpid(), self.queries, str(r)))
            with open(f, 'w') as fh:
                fh.write('; z3 (python) verdict: %s\n(set-logic ALL)\n' % r + text)
            self.dumped += 1
        except Exception:
            pass

    def new_obligation(self):
        """fresh solver; input declarations (variables + their domain constraints) are asserted once at the base level"""
        self.solver = z3.Solver()
        self.decls = {}
        self.pending = []
        self.pushed = False
        self.dumped = 0

    def declare(self, name, make):
        """make() -> (value, [constraints], [(var, domain)]) ; cached per obligation, constraints live at the solver's base level"""
        hit = self.decls.get(name)
        if hit is None:
            hit = make()
            self.decls[name] = hit
            for c in hit[1]:
                self.solver.add(c)      # current scope (popped with it) ...
                self.pending.append(c)  # ... and re-asserted at the base level on the next reset
            self.model = None
        for v, dom in hit[2]:
            self.domains[v.get_id()] = dom
        return hit[0]

    def reset(self, prefix):
        if self.solver is None:
            self.new_obligation()
        if self.pushed:
            self.solver.pop()
        for c in self.pending:
            self.solver.add(c)
        self.pending = []
        self.solver.push()
        self.pushed = True
        self.prefix = list(prefix)
        self.prefix_hash = []
        self.trace_hash = []
        self.trace = []
        self.both = []
        self.model = None
        self.active = True
        self.cache = {}
        self.domains = {}
        self.keep = []

    def _check(self, *assumptions):
        t0 = time.perf_counter()
        r = self.solver.check(*assumptions)
        self.solver_s += time.perf_counter() - t0
        self.queries += 1
        if r == z3.unknown:
            self.unknowns += 1
        elif self.dump_every and self.dump_dir and self.dumped < self.dump_cap and self.queries % self.dump_every == 0:
            self._dump(assumptions, r)
        return r

    def assume(self, c):
        """add a constraint that is part of the input space definition (not a branch)"""
        self.solver.add(c)
        self.model = None

    def decide(self, c):
        if not self.active:
            raise Unsupported('symbolic branch outside an exploration')
        self._h = c.hash()          # structural hash of the condition as built (simplification may reorder arguments)
        c = z3.simplify(c)
        if z3.is_true(c):
            return True
        if z3.is_false(c):
            return False
        inner, neg = (c.arg(0), True) if z3.is_not(c) else (c, False)
        hit = self.cache.get(inner.get_id())
        if hit is not None:
            return hit != neg
        w = self._decide(c)
        self.cache[inner.get_id()] = (w != neg)
        self.keep.append(inner)
        return w

    def _decide(self, c):
        i = len(self.trace)
        if i >= self.max_decisions:
            raise Unsupported('decision budget exceeded on one path')
        if i < len(self.prefix):
            w = self.prefix[i]
            if i < len(self.prefix_hash) and self.prefix_hash[i] != self._h:
                # the same decision prefix must meet the same conditions: otherwise the code under test (or the harness) keeps state
                # across executions and the path tree is not well defined
                raise Unsupported('re-execution of a decision prefix met a different condition at decision %d (state kept across calls?)' % i)
            self.solver.add(c if w else z3.Not(c))
            self.trace.append(w)
            self.trace_hash.append(self._h)
            self.both.append(False)
            return w
        known = None
        if self.model is not None:
            v = self.model.eval(c, model_completion=True)
            if z3.is_true(v):
                known = True
            elif z3.is_false(v):
                known = False
        t = f = False
        mt = mf = None
        if known is True:
            t, mt = True, self.model
        else:
            r = self._check(c)
            if r == z3.sat:
                t, mt = True, self.solver.model()
            elif r == z3.unknown:
                raise Unsupported('solver returned unknown')
        if known is False:
            f, mf = True, self.model
        else:
            r = self._check(z3.Not(c))
            if r == z3.sat:
                f, mf = True, self.solver.model()
            elif r == z3.unknown:
                raise Unsupported('solver returned unknown')
        if not t and not f:
            raise Abort()
        w = t
        self.solver.add(c if w else z3.Not(c))
        self.model = mt if w else mf
        self.trace.append(w)
        self.trace_hash.append(self._h)
        self.both.append(t and f)
        return w

    def feasible(self, c):
        """is pc & c satisfiable?  (no branch recorded)"""
        r = self._check(c)
        if r == z3.unknown:
            raise Unsupported('solver returned unknown')
        return r == z3.sat

    def must(self, c):
        return not self.feasible(z3.Not(c))


E = Engine()


class SymBool:
    __slots__ = ('e',)

    def __init__(self, e):
        self.e = e

    def __bool__(self):
        return E.decide(self.e)

    def __invert__(self):
        return SymBool(z3.Not(self.e))


def is_sym_char(c):
    return not isinstance(c, int)


def _ce(c):
    return c if not isinstance(c, int) else z3.IntVal(c)


def chars_of(s):
    if isinstance(s, SymStr):
        return s.chars
    if isinstance(s, str):
        return tuple(map(ord, s))
    raise TypeError('expected str, got %s' % type(s).__name__)


def is_sym(s):
    return isinstance(s, SymStr)


def mk(chars):
    chars = tuple(chars)
    if not E.force_sym and all(isinstance(c, int) for c in chars):
        return ''.join(map(chr, chars))
    return SymStr(chars)


def _dom_excludes(v, k):
    """v: z3 char expression, k: int.  True when v is an input variable whose declared alphabet does not contain k"""
    d = E.domains.get(v.get_id())
    return d is not None and not d.ok(k)


def char_eq(a, b):
    if isinstance(a, int) and isinstance(b, int):
        return a == b
    if isinstance(b, int) and _dom_excludes(a, b) or isinstance(a, int) and _dom_excludes(b, a):
        return False
    return SymBool(_ce(a) == _ce(b))


def char_in(c, vals):
    if isinstance(c, int):
        return c in vals
    vals = [v for v in vals if not _dom_excludes(c, v)]
    if not vals:
        return False
    return SymBool(z3.Or(*[c == v for v in vals]))


def char_between(c, lo, hi):
    """lo <= c <= hi for a code point or a one-character string"""
    if isinstance(c, str):
        (c,) = chars_of(c)
    if isinstance(c, int):
        return lo <= c <= hi
    return SymBool(z3.And(c >= lo, c <= hi))


def seq_eq(a, b):
    """equality of two code point sequences: bool or SymBool"""
    if len(a) != len(b):
        return False
    conj = []
    for x, y in zip(a, b):
        if isinstance(x, int) and isinstance(y, int):
            if x != y:
                return False
        else:
            if x is y:
                continue
            if isinstance(y, int):
                if _dom_excludes(x, y):
                    return False
            elif isinstance(x, int) and _dom_excludes(y, x):
                return False
            conj.append(_ce(x) == _ce(y))
    if not conj:
        return True
    return SymBool(z3.And(*conj) if len(conj) > 1 else conj[0])


def truth(r):
    return r if isinstance(r, bool) else bool(r)


WS = (9, 10, 11, 12, 13, 28, 29, 30, 31, 32, 133, 160, 0x1680, 0x2000, 0x2001, 0x2002, 0x2003, 0x2004, 0x2005, 0x2006,
      0x2007, 0x2008, 0x2009, 0x200a, 0x2028, 0x2029, 0x202f, 0x205f, 0x3000)

SENTINEL = ''
_ALLOWED = set()


class SymStr(str):
    def __new__(cls, chars):
        o = str.__new__(cls, SENTINEL * max(1, len(chars)))
        o.chars = tuple(chars)
        return o

    # ---- value protocol
    def __eq__(self, o):
        if not isinstance(o, str):
            return NotImplemented
        return truth(seq_eq(self.chars, chars_of(o)))

    def __ne__(self, o):
        r = self.__eq__(o)
        return r if r is NotImplemented else not r

    def __hash__(self):
        return 0

    def __len__(self):
        return len(self.chars)

    def __bool__(self):
        return len(self.chars) > 0

    def __str__(self):
        return self

    def __repr__(self):
        return 'SymStr(%r)' % (self.chars,)

    def __iter__(self):
        return iter([mk((c,)) for c in self.chars])

    def __getitem__(self, i):
        if isinstance(i, slice):
            return mk(self.chars[i])
        return mk((self.chars[i],))

    def __add__(self, o):
        if not isinstance(o, str):
            return NotImplemented
        return mk(self.chars + chars_of(o))

    def __radd__(self, o):
        if not isinstance(o, str):
            return NotImplemented
        return mk(chars_of(o) + self.chars)

    def __mul__(self, n):
        return mk(self.chars * n)

    __rmul__ = __mul__

    def __mod__(self, o):
        raise Unsupported('SymStr %')

    def __contains__(self, o):
        return sym_in(o, self)

    def __lt__(self, o):
        raise Unsupported('SymStr ordering')

    __le__ = __gt__ = __ge__ = __lt__

    def __format__(self, spec):
        if spec != '':
            raise Unsupported('SymStr format spec %r' % spec)
        return self

    def __reduce__(self):
        raise Unsupported('pickling SymStr')

    def __getattribute__(self, name):
        if name in _ALLOWED or (name.startswith('__') and name.endswith('__')):
            return object.__getattribute__(self, name)
        if not hasattr(str, name):
            raise AttributeError("'str' object has no attribute %r" % name)      # as a real str would
        raise Unsupported('SymStr.' + name)

    # ---- str methods (also used for concrete receivers with symbolic arguments via sym_method)
    def startswith(self, p, *a):
        if a:
            raise Unsupported('startswith with offsets')
        if isinstance(p, tuple):
            return any(self.startswith(q) for q in p)
        sc, pc = chars_of(self), chars_of(p)
        if len(pc) > len(sc):
            return False
        return truth(seq_eq(sc[:len(pc)], pc))

    def endswith(self, p, *a):
        if a:
            raise Unsupported('endswith with offsets')
        if isinstance(p, tuple):
            return any(self.endswith(q) for q in p)
        sc, pc = chars_of(self), chars_of(p)
        if len(pc) > len(sc):
            return False
        return truth(seq_eq(sc[len(sc) - len(pc):], pc))

    def find(self, sub, start=0, end=None):
        sc, pc = chars_of(self), chars_of(sub)
        n = len(sc)
        if start < 0:
            start = max(0, n + start)
        end = n if end is None else (max(0, n + end) if end < 0 else min(end, n))
        for i in range(start, end - len(pc) + 1):
            if truth(seq_eq(sc[i:i + len(pc)], pc)):
                return i
        return -1

    def index(self, sub, *a):
        r = SymStr.find(self, sub, *a)
        if r < 0:
            raise ValueError('substring not found')
        return r

    def rfind(self, sub, *a):
        if a:
            raise Unsupported('rfind with offsets')
        sc, pc = chars_of(self), chars_of(sub)
        for i in range(len(sc) - len(pc), -1, -1):
            if truth(seq_eq(sc[i:i + len(pc)], pc)):
                return i
        return -1

    def count(self, sub, *a):
        if a:
            raise Unsupported('count with offsets')
        sc, pc = chars_of(self), chars_of(sub)
        if not pc:
            return len(sc) + 1
        i = n = 0
        while i + len(pc) <= len(sc):
            if truth(seq_eq(sc[i:i + len(pc)], pc)):
                n += 1
                i += len(pc)
            else:
                i += 1
        return n

    def replace(self, old, new, count=-1):
        sc, oc, nc = chars_of(self), chars_of(old), chars_of(new)
        if not oc:
            raise Unsupported('replace of empty string')
        out = []
        i = 0
        done = 0
        while i < len(sc):
            if (count < 0 or done < count) and i + len(oc) <= len(sc) and truth(seq_eq(sc[i:i + len(oc)], oc)):
                out.extend(nc)
                i += len(oc)
                done += 1
                continue
            out.append(sc[i])
            i += 1
        return mk(out)

    def split(self, sep=None, maxsplit=-1):
        sc = chars_of(self)
        if sep is None:
            if maxsplit != -1:
                raise Unsupported('split(None, maxsplit)')
            res, cur = [], []
            for c in sc:
                if truth(char_in(c, WS)):
                    if cur:
                        res.append(mk(cur))
                        cur = []
                else:
                    cur.append(c)
            if cur:
                res.append(mk(cur))
            return res
        pc = chars_of(sep)
        if not pc:
            raise ValueError('empty separator')
        res, cur, i = [], [], 0
        while i < len(sc):
            if (maxsplit < 0 or len(res) < maxsplit) and i + len(pc) <= len(sc) and truth(seq_eq(sc[i:i + len(pc)], pc)):
                res.append(mk(cur))
                cur = []
                i += len(pc)
            else:
                cur.append(sc[i])
                i += 1
        res.append(mk(cur))
        return res

    def _strip(self, chars, left, right):
        sc = list(chars_of(self))
        vals = WS if chars is None else chars_of(chars)
        if any(not isinstance(v, int) for v in vals):
            raise Unsupported('strip with symbolic set')
        if left:
            while sc and truth(char_in(sc[0], vals)):
                sc.pop(0)
        if right:
            while sc and truth(char_in(sc[-1], vals)):
                sc.pop()
        return mk(sc)

    def strip(self, chars=None):
        return SymStr._strip(self, chars, True, True)

    def lstrip(self, chars=None):
        return SymStr._strip(self, chars, True, False)

    def rstrip(self, chars=None):
        return SymStr._strip(self, chars, False, True)

    def join(self, it):
        sep = chars_of(self)
        out = []
        first = True
        for p in it:
            if not isinstance(p, str):
                raise TypeError('sequence item: expected str instance, %s found' % type(p).__name__)
            if not first:
                out.extend(sep)
            out.extend(chars_of(p))
            first = False
        return mk(out)

    def lower(self):
        out = []
        for c in chars_of(self):
            if isinstance(c, int):
                lc = chr(c).lower()
                if len(lc) != 1:
                    raise Unsupported('lower() changing length')
                out.append(ord(lc))
            else:
                # exact only where Unicode lower-casing is the ASCII rule or the identity
                safe = z3.Or(c < 128, z3.And(c >= 0x3041, c <= 0x30FF), z3.And(c >= 0x4E00, c <= 0x9FFF),
                             z3.And(c >= 0x1F600, c <= 0x1F64F), z3.And(c >= 0xA1, c <= 0xBF))
                if not E.must(safe):
                    raise Unsupported('lower() on a code point with non-trivial case mapping')
                out.append(z3.If(z3.And(c >= 65, c <= 90), c + 32, c))
        return mk(out)

    def format(self, *args, **kwargs):
        return sym_format(self, args, kwargs)

    def isspace(self):
        sc = chars_of(self)
        return len(sc) > 0 and all(truth(char_in(c, WS)) for c in sc)

    def partition(self, sep):
        pc = chars_of(sep)
        if not pc:
            raise ValueError('empty separator')
        sc = chars_of(self)
        i = SymStr.find(self, sep)
        if i < 0:
            return (mk(sc), '', '')
        return (mk(sc[:i]), mk(pc), mk(sc[i + len(pc):]))

    def rpartition(self, sep):
        pc = chars_of(sep)
        if not pc:
            raise ValueError('empty separator')
        sc = chars_of(self)
        i = SymStr.rfind(self, sep)
        if i < 0:
            return ('', '', mk(sc))
        return (mk(sc[:i]), mk(pc), mk(sc[i + len(pc):]))

    def rsplit(self, sep=None, maxsplit=-1):
        if maxsplit == -1:
            return SymStr.split(self, sep)
        if sep is None:
            raise Unsupported('rsplit(None, maxsplit)')
        pc = chars_of(sep)
        if not pc:
            raise ValueError('empty separator')
        sc = list(chars_of(self))
        res, end, i = [], len(sc), len(sc) - len(pc)
        while i >= 0 and len(res) < maxsplit:
            if truth(seq_eq(sc[i:i + len(pc)], pc)):
                res.append(mk(sc[i + len(pc):end]))
                end = i
                i -= len(pc)
            else:
                i -= 1
        res.append(mk(sc[:end]))
        return res[::-1]

    def removeprefix(self, p):
        return mk(chars_of(self)[len(chars_of(p)):]) if SymStr.startswith(self, p) else mk(chars_of(self))

    def removesuffix(self, p):
        n = len(chars_of(p))
        return mk(chars_of(self)[:len(chars_of(self)) - n]) if (n and SymStr.endswith(self, p)) else mk(chars_of(self))

    def _pad(self, width, fill, left, right):
        sc = list(chars_of(self))
        fc = chars_of(fill)
        if len(fc) != 1:
            raise TypeError('The fill character must be exactly one character long')
        return mk([fc[0]] * left + sc + [fc[0]] * right)

    def ljust(self, width, fill=' '):
        return SymStr._pad(self, width, fill, 0, max(0, width - len(chars_of(self))))

    def rjust(self, width, fill=' '):
        return SymStr._pad(self, width, fill, max(0, width - len(chars_of(self))), 0)

    def center(self, width, fill=' '):
        n = len(chars_of(self))
        marg = max(0, width - n)
        left = marg // 2 + (marg & width & 1)       # CPython's rounding
        return SymStr._pad(self, width, fill, left, marg - left)

    def splitlines(self, keepends=False):
        if keepends:
            raise Unsupported('splitlines(keepends)')
        sc = chars_of(self)
        res, cur = [], []
        NL = (10, 11, 12, 13, 28, 29, 30, 133, 0x2028, 0x2029)
        i = 0
        while i < len(sc):
            c = sc[i]
            if truth(char_in(c, NL)):
                # \r\n counts once
                if truth(char_eq(c, 13)) and i + 1 < len(sc) and truth(char_eq(sc[i + 1], 10)):
                    i += 1
                res.append(mk(cur))
                cur = []
            else:
                cur.append(c)
            i += 1
        if cur:
            res.append(mk(cur))
        return res


_ALLOWED.update(n for n in vars(SymStr) if not n.startswith('__'))
_ALLOWED.add('chars')

STR_METHODS = {n for n in vars(SymStr) if not n.startswith('_') and callable(getattr(SymStr, n))}


def any_sym(*vals):
    for v in vals:
        if isinstance(v, SymStr):
            return True
        if isinstance(v, (list, tuple)):
            if any_sym(*v):
                return True
    return False


def sym_method(obj, name):
    """`obj.name` for a method call: routes str methods with symbolic receiver/arguments to SymStr"""
    if isinstance(obj, str):
        if name in STR_METHODS:
            f = getattr(SymStr, name)
            if isinstance(obj, SymStr):
                return lambda *a, **k: f(obj, *a, **k)
            real = getattr(obj, name)

            def call(*a, **k):
                if name == 'join':
                    a = (list(a[0]),)
                if any_sym(*a) or any_sym(*k.values()):
                    return f(obj, *a, **k)
                return real(*a, **k)
            return call
        if isinstance(obj, SymStr):
            raise Unsupported('SymStr.' + name)
    elif name in ('get', 'pop') and isinstance(obj, dict):
        real = getattr(obj, name)

        def dcall(key, *default):
            k = dict_find(obj, key)
            if k is _MISSING:
                if default:
                    return default[0]
                if name == 'pop':
                    raise KeyError(key)
                return None
            return real(k)
        return dcall
    return getattr(obj, name)


_MISSING = object()


def contains_sym(x, depth=0):
    if isinstance(x, SymStr):
        return True
    if depth < 3 and isinstance(x, tuple):
        return any(contains_sym(y, depth + 1) for y in x)
    return False


def dict_find(d, key):
    """the key object stored in d equal to key, or _MISSING; equality scan when symbolic strings are involved"""
    if contains_sym(key) or any(contains_sym(k) for k in d):
        for k in d:
            if k == key:
                return k
        return _MISSING
    try:
        return key if key in d else _MISSING
    except TypeError:
        raise


def sym_in(a, b):
    """a in b"""
    if isinstance(b, str):
        if isinstance(a, SymStr) or isinstance(b, SymStr):
            ac, bc = chars_of(a), chars_of(b)
            alts = []
            for i in range(len(bc) - len(ac) + 1):
                r = seq_eq(bc[i:i + len(ac)], ac)
                if r is True:
                    return True
                if r is not False:
                    alts.append(r.e)
            if not alts:
                return False
            return truth(SymBool(z3.Or(*alts) if len(alts) > 1 else alts[0]))   # one decision: the result is only a bool
        return a in b
    if isinstance(b, dict):
        return dict_find(b, a) is not _MISSING
    if isinstance(b, (set, frozenset)) and (contains_sym(a) or any(contains_sym(k) for k in b)):
        return any(k == a for k in b)
    return a in b


def sym_getitem(o, k):
    if isinstance(o, dict) and not isinstance(k, slice):
        kk = dict_find(o, k)
        if kk is _MISSING:
            if hasattr(type(o), '__missing__'):
                return o[k]
            raise KeyError(k)
        return o[kk]
    return o[k]


def sym_str(v):
    if isinstance(v, str):
        return v if type(v) in (str, SymStr) else str.__str__(v)
    r = type(v).__str__(v)
    if not isinstance(r, str):
        raise TypeError('__str__ returned non-string')
    return r


def safe_str(v):
    """for harness reports only: the text of a value the code under test returned, whatever state it is in"""
    try:
        return sym_str(v)
    except Exception as e:
        return '<%s whose __str__ raises %s>' % (type(v).__name__, type(e).__name__)


def sym_fmt(v, conv, spec):
    """one replacement field of an f-string"""
    if conv == ord('r'):
        v = repr(v)
        if is_sym(v):
            raise Unsupported('repr of symbolic value in f-string')
    elif conv == ord('s'):
        v = sym_str(v)
    elif conv == ord('a'):
        raise Unsupported('!a')
    if spec:
        if is_sym(v):
            return _fmt_spec_str(v, spec)
        if is_sym(spec):
            raise Unsupported('symbolic format spec')
        return format(v, spec)
    if isinstance(v, str):
        return v
    if hasattr(type(v), '__format__') and type(v).__format__ is not object.__format__ and not isinstance(v, (int, float)):
        return format(v, '')
    return sym_str(v)


def _fmt_spec_str(v, spec):
    import re
    m = re.fullmatch(r'(?:(.)?([<>^]))?(\d+)?', spec)
    if not m:
        raise Unsupported('format spec %r on symbolic string' % spec)
    fill, align, width = m.group(1) or ' ', m.group(2) or '<', int(m.group(3) or 0)
    pad = max(0, width - len(v))
    if align == '<':
        return v + fill * pad
    if align == '>':
        return fill * pad + v
    left = pad // 2
    return fill * left + v + fill * (pad - left)


def sym_join(parts):
    out = []
    for p in parts:
        if not isinstance(p, str):
            raise Unsupported('join part %r' % type(p))
        out.extend(chars_of(p))
    return mk(out)


def sym_format(tmpl, args, kwargs):
    """str.format for the replacement-field forms depccg uses: {} {0} {name} {:spec} {0:spec} {{ }}"""
    if is_sym(tmpl):
        raise Unsupported('symbolic format template')
    import string
    out = []
    auto = 0
    for lit, field, spec, conv in string.Formatter().parse(tmpl):
        out.append(lit)
        if field is None:
            continue
        if field == '':
            v = args[auto]
            auto += 1
        elif field.isdigit():
            v = args[int(field)]
        elif field.isidentifier():
            v = kwargs[field]
        else:
            raise Unsupported('format field %r' % field)
        out.append(sym_fmt(v, ord(conv) if conv else -1, spec or ''))
    return sym_join(out)


class SymStringIO:
    """pure-Python StringIO (the C one would read the SymStr buffer)"""

    def __init__(self, initial=''):
        self.parts = [initial] if initial else []
        self.closed = False

    def write(self, s):
        if not isinstance(s, str):
            raise TypeError('string argument expected')
        self.parts.append(s)
        return len(s)

    def getvalue(self):
        return sym_join(self.parts)

    def close(self):
        self.closed = True

    def __enter__(self):
        return self

    def __exit__(self, *a):
        self.close()
        return False


def sym_print(*args, sep=' ', end='\n', file=None, flush=False):
    import builtins
    if file is None:
        if any_sym(*args):
            raise Unsupported('print of symbolic value to stdout')
        return builtins.print(*args, sep=sep, end=end)
    parts = []
    for i, a in enumerate(args):
        if i:
            parts.append(sep)
        parts.append(sym_str(a))
    parts.append(end)
    file.write(sym_join(parts))


class SymSet:
    """set with equality-scan membership (hashes of symbolic strings are meaningless) and insertion-order iteration"""

    def __init__(self, it=()):
        self.items = []
        for x in it:
            self.add(x)

    def add(self, x):
        for y in self.items:
            if y == x:
                return
        self.items.append(x)

    def __contains__(self, x):
        return any(y == x for y in self.items)

    def __and__(self, o):
        return type(self)([x for x in self.items if x in o])

    def __or__(self, o):
        return type(self)(list(self.items) + list(o))

    def __sub__(self, o):
        return type(self)([x for x in self.items if x not in o])

    def __len__(self):
        return len(self.items)

    def __iter__(self):
        return iter(list(self.items))

    def __eq__(self, o):
        if not isinstance(o, (SymSet, set, frozenset)):
            return NotImplemented
        return len(self) == len(o) and all(x in o for x in self.items)

    def __repr__(self):
        return 'SymSet(%r)' % (self.items,)


_choice_counter = [0]


def choose(k, name=None):
    """k-way fork: returns an int in range(k); every value is explored"""
    if k <= 1:
        return 0
    _choice_counter[0] += 1
    v = z3.Int(name or ('choice!%d' % _choice_counter[0]))
    E.assume(z3.And(v >= 0, v < k))
    for i in range(k - 1):
        if E.decide(v == i):
            return i
    return k - 1


def leak_scan(x, depth=0):
    """True if a plain str carrying the SymStr sentinel is reachable from x (a C function read a SymStr buffer)"""
    if isinstance(x, SymStr):
        return False
    if isinstance(x, str):
        return SENTINEL in x
    if depth > 6:
        return False
    if isinstance(x, dict):
        return any(leak_scan(k, depth + 1) or leak_scan(v, depth + 1) for k, v in x.items())
    if isinstance(x, (list, tuple, set, frozenset)):
        return any(leak_scan(y, depth + 1) for y in x)
    return False


def sjoin(sep, parts):
    """sep.join(parts) for harness code (which is not AST-rewritten)"""
    return SymStr.join(sep, list(parts))
