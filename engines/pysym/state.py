"""Module-level state of the code under test.

Engine P executes the harness once per path in one process.  Each path stands for one fresh run of the real code, so mutable state
that the code keeps at module or class level (memo tables, caches, work lists) must not leak from one path into the next: the
containers found in an instrumented module right after its import are remembered with their import-time contents and put back before
every path.  Inside one path the state evolves as in a real process, which is what the history-style harnesses rely on.
(Containers created later, or state hidden in closures, are not seen: the determinism check of core.Engine reports those.)"""
import collections
import copy

_REG = []     # (container, import-time shallow copy)
_LRU = []     # functools.lru_cache wrappers and anything else with cache_clear()
_SEEN = set()
_MISSING = object()
KINDS = (dict, set, list, collections.defaultdict, collections.OrderedDict, collections.deque)


def _reg_value(v):
    if id(v) in _SEEN:
        return
    if callable(getattr(v, 'cache_clear', None)):
        _SEEN.add(id(v))
        _LRU.append(v)
    elif type(v) in KINDS or type(v).__name__ == 'SymSet':
        _SEEN.add(id(v))
        _REG.append((v, copy.copy(v)))


def register(m):
    for k, v in list(m.__dict__.items()):
        if k.startswith('__'):
            continue
        _reg_value(v)
        if isinstance(v, type) and getattr(v, '__module__', None) == m.__name__:
            for ck, cv in list(vars(v).items()):
                if not ck.startswith('__'):
                    _reg_value(cv)


def restore():
    """put back the import-time contents of every container whose size changed (cheap test: caches grow)"""
    n = 0
    for c, snap in _REG:
        try:
            if len(c) == len(snap):
                # same size: still dirty if a small mapping/list holds other objects than at import (identity test: no comparisons of values)
                if len(snap) > 256:
                    continue
                if isinstance(c, dict):
                    if all(c.get(k, _MISSING) is v for k, v in snap.items()):
                        continue
                elif isinstance(c, (list, collections.deque)):
                    if all(a is b for a, b in zip(c, snap)):
                        continue
                else:
                    continue
            if isinstance(c, (list, collections.deque)):
                c.clear()
                c.extend(snap)
            else:
                c.clear()
                c.update(snap)
            n += 1
        except Exception:
            pass
    for f in _LRU:
        try:
            f.cache_clear()
        except Exception:
            pass
    return n
