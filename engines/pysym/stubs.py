"""Pure-Python stand-ins used in symbolic runs only (replays use the real libraries):
 * etree: the part of lxml.etree that depccg uses (Element/SubElement/set/get/attrib/items/xpath of six fixed forms/tostring/parse)
 * json: dumps (indent) over dict/list/str/int/float/None with symbolic strings
"""
import copy
import z3
from . import core
from .core import SymStr, chars_of, mk, is_sym, sym_join, Unsupported, E, truth, SymBool


# ------------------------------------------------------------------------------------------------ etree

class Element:
    def __init__(self, tag, attrib=None):
        self.tag = tag
        self.attrib = dict(attrib or {})
        self.children = []
        self.text = None
        self.parent = None

    def set(self, k, v):
        if not isinstance(k, str) or not isinstance(v, str):
            raise TypeError('Argument must be bytes or unicode, got %r' % type(v).__name__)
        _check_xml_text(v)
        kk = core.dict_find(self.attrib, k)
        self.attrib[k if kk is core._MISSING else kk] = v

    def get(self, k, default=None):
        kk = core.dict_find(self.attrib, k)
        return default if kk is core._MISSING else self.attrib[kk]

    def items(self):
        return list(self.attrib.items())

    def keys(self):
        return list(self.attrib.keys())

    def append(self, child):
        if child.parent is not None and child in child.parent.children:
            child.parent.children.remove(child)
        child.parent = self
        self.children.append(child)

    def getchildren(self):
        return list(self.children)

    def __getitem__(self, i):
        return self.children[i]

    def __len__(self):
        return len(self.children)

    def __iter__(self):
        return iter(list(self.children))

    def __bool__(self):
        return True

    def iter(self, tag=None):
        if tag is None or self.tag == tag:
            yield self
        for c in self.children:
            yield from c.iter(tag)

    def find(self, path):
        r = self.xpath(path if path.startswith('.') else './' + path)
        return r[0] if r else None

    def findall(self, path):
        return self.xpath(path if path.startswith('.') else './' + path)

    def xpath(self, path):
        """the fixed forms depccg uses: 'tag', './tag', './/tag', './tag[N]', './/tag[@attr="v"]'"""
        import re
        m = re.fullmatch(r'\.//descendant-or-self::\*\[@(\w+)="([^"]*)"\]', path)
        if m:
            return [e for e in self.iter() if e.get(m.group(1)) == m.group(2)]
        m = re.fullmatch(r'(\.//|\./|//)?([A-Za-z_][\w\-]*)(?:\[(\d+)\])?(?:\[@(\w+)=[\'"]([^\'"]*)[\'"]\])?', path)
        if not m:
            raise Unsupported('xpath ' + path)
        axis, tag, idx, attr, val = m.groups()
        if axis in ('.//', '//'):
            cands = [e for c in self.children for e in c.iter(tag)]
        else:
            cands = [c for c in self.children if c.tag == tag]
        if attr is not None:
            cands = [c for c in cands if c.get(attr) == val]
        if idx is not None:
            i = int(idx)
            cands = cands[i - 1:i]
        return cands

    def __deepcopy__(self, memo):
        e = Element(self.tag, dict(self.attrib))
        e.text = self.text
        for c in self.children:
            e.append(copy.deepcopy(c, memo))
        return e


def SubElement(parent, tag, attrib=None):
    e = Element(tag, attrib)
    parent.append(e)
    return e


_XML_BAD = tuple(range(0, 9)) + (11, 12) + tuple(range(14, 32)) + (0xFFFE, 0xFFFF)


def _check_xml_text(v):
    """lxml rejects strings that are not XML-compatible (control characters); symbolic characters must be provably fine"""
    for c in chars_of(v):
        if isinstance(c, int):
            if c in _XML_BAD:
                raise ValueError('All strings must be XML compatible')
        else:
            if not E.must(z3.And(c >= 32, z3.Or(c < 0xD800, c > 0xDFFF), c != 0xFFFE, c != 0xFFFF)):
                raise Unsupported('symbolic character may be XML-incompatible')


def _esc(v, attr):
    v = SymStr.replace(v, '&', '&amp;') if is_sym(v) else v.replace('&', '&amp;')
    v = SymStr.replace(v, '<', '&lt;') if is_sym(v) else v.replace('<', '&lt;')
    v = SymStr.replace(v, '>', '&gt;') if is_sym(v) else v.replace('>', '&gt;')
    if attr:
        v = SymStr.replace(v, '"', '&quot;') if is_sym(v) else v.replace('"', '&quot;')
    return v


class _Bytes:
    def __init__(self, s):
        self.s = s

    def decode(self, enc='utf-8'):
        return self.s


def tostring(node, encoding=None, pretty_print=False, **kw):
    out = []

    def rec(e, depth):
        ind = '  ' * depth if pretty_print else ''
        out.append(ind + '<' + e.tag)
        for k, v in e.attrib.items():
            out.extend([' ', k, '="', _esc(v, True), '"'])
        if not e.children and not e.text:
            out.append('/>')
        else:
            out.append('>')
            if e.text:
                out.append(_esc(e.text, False))
            if e.children:
                if pretty_print:
                    out.append('\n')
                for c in e.children:
                    rec(c, depth + 1)
                out.append(ind)
            out.append('</' + e.tag + '>')
        if pretty_print:
            out.append('\n')
    rec(node, 0)
    s = sym_join(out)
    return _Bytes(s) if encoding not in ('unicode', str) else s


class _Tree:
    def __init__(self, root):
        self.root = root

    def getroot(self):
        return self.root


XML_FILES = {}


def parse(filename, *a, **k):
    if filename not in XML_FILES:
        raise OSError('Error reading file %r' % (filename,))
    return _Tree(copy.deepcopy(XML_FILES[filename]))


class EtreeModule:
    Element = staticmethod(Element)
    SubElement = staticmethod(SubElement)
    tostring = staticmethod(tostring)
    parse = staticmethod(parse)
    _Element = Element

    @staticmethod
    def fromstring(text):
        raise Unsupported('etree.fromstring in a symbolic run')


ETREE = EtreeModule()


# ------------------------------------------------------------------------------------------------ json

def _hex_digit(n):
    return z3.If(n < 10, 48 + n, 87 + n)


def _json_str(s):
    out = [34]
    for c in chars_of(s):
        if isinstance(c, int):
            import json as _json
            out.extend(ord(ch) for ch in _json.dumps(chr(c))[1:-1])
            continue
        if truth(SymBool(z3.And(c >= 32, c < 127, c != 34, c != 92))):
            out.append(c)
        elif truth(SymBool(z3.Or(c == 34, c == 92))):
            out.extend([92, c])
        elif truth(SymBool(c < 32)):
            raise Unsupported('symbolic control character in json string')
        elif truth(SymBool(c < 0x10000)):
            out.extend([92, 117] + [_hex_digit((c / (16 ** k)) % 16) for k in (3, 2, 1, 0)])
        else:
            v = c - 0x10000
            hi, lo = 0xD800 + v / 1024, 0xDC00 + v % 1024
            for u in (hi, lo):
                out.extend([92, 117] + [_hex_digit((u / (16 ** k)) % 16) for k in (3, 2, 1, 0)])
    out.append(34)
    return mk(out)


def dumps(obj, indent=None, **kw):
    if kw.get('ensure_ascii', True) is not True or set(kw) - {'ensure_ascii', 'allow_nan', 'sort_keys'} or kw.get('sort_keys'):
        raise Unsupported('json.dumps options %r' % (kw,))
    allow_nan = kw.get('allow_nan', True)
    import json as _json
    parts = []

    def nl(depth):
        if indent is not None:
            parts.append('\n' + ' ' * (indent * depth))

    def rec(o, depth):
        if isinstance(o, str):
            parts.append(_json_str(o))
        elif o is None or isinstance(o, (bool, int, float)):
            parts.append(_json.dumps(o, allow_nan=allow_nan))
        elif isinstance(o, dict):
            if not o:
                parts.append('{}')
                return
            parts.append('{')
            first = True
            for k, v in o.items():
                if not first:
                    parts.append(',' if indent is not None else ', ')
                first = False
                nl(depth + 1)
                if isinstance(k, str):
                    parts.append(_json_str(k))
                elif isinstance(k, bool) or k is None or isinstance(k, (int, float)):
                    parts.append('"' + _json.dumps(k) + '"')
                else:
                    raise TypeError('keys must be str, int, float, bool or None')
                parts.append(': ')
                rec(v, depth + 1)
            nl(depth)
            parts.append('}')
        elif isinstance(o, (list, tuple)):
            if not o:
                parts.append('[]')
                return
            parts.append('[')
            first = True
            for v in o:
                if not first:
                    parts.append(',' if indent is not None else ', ')
                first = False
                nl(depth + 1)
                rec(v, depth + 1)
            nl(depth)
            parts.append(']')
        else:
            raise TypeError('Object of type %s is not JSON serializable' % type(o).__name__)
    rec(obj, 0)
    return sym_join(parts)


class JsonModule:
    dumps = staticmethod(dumps)

    def __getattr__(self, n):
        import json as _json
        return getattr(_json, n)


JSON = JsonModule()


def install(m):
    """post-exec fixup of an instrumented module: replace lxml.etree / json by the stand-ins"""
    d = m.__dict__
    try:
        from lxml import etree as real_etree
    except Exception:
        real_etree = None
    import json as real_json
    for k, v in list(d.items()):
        if real_etree is not None and v is real_etree:
            d[k] = ETREE
        elif v is real_json:
            d[k] = JSON


# ------------------------------------------------------------------------------------------------ numpy (shape + masked assignment only)

class BoolVec:
    def __init__(self, vals):
        self.vals = list(vals)
        self.shape = (len(self.vals),)

    def __setitem__(self, idx, v):
        if isinstance(idx, (list, tuple)):
            for i in idx:
                self.vals[self._ix(i)] = bool(v)
        else:
            self.vals[self._ix(idx)] = bool(v)

    def _ix(self, i):
        if not isinstance(i, int) or not (-len(self.vals) <= i < len(self.vals)):
            raise IndexError('index %r is out of bounds for axis 0 with size %d' % (i, len(self.vals)))
        return i

    def __len__(self):
        return len(self.vals)


class BoolMat:
    """2-D boolean array: row assignment/read, leading-row slices (copies, frozen: numpy would give a view)"""

    def __init__(self, rows, frozen=False):
        self.rows = [list(r) for r in rows]
        self.ncols = len(self.rows[0]) if self.rows else 0
        self.shape = (len(self.rows), self.ncols)
        self.frozen = frozen

    def _ix(self, i):
        if not isinstance(i, int) or isinstance(i, bool) or not (-len(self.rows) <= i < len(self.rows)):
            raise IndexError('index %r is out of bounds for axis 0 with size %d' % (i, len(self.rows)))
        return i

    def __setitem__(self, key, v):
        if self.frozen:
            raise Unsupported('write through a slice view of a boolean matrix')
        if isinstance(key, tuple) and len(key) == 2 and all(isinstance(k, int) for k in key):
            if not (-self.ncols <= key[1] < self.ncols):
                raise IndexError('column index out of bounds')
            self.rows[self._ix(key[0])][key[1]] = bool(v)
            return
        if isinstance(key, slice):
            idx = range(*key.indices(len(self.rows)))
        else:
            idx = [self._ix(key)]
        for i in idx:
            if isinstance(v, BoolVec):
                if len(v) != self.ncols:
                    raise ValueError('could not broadcast input array from shape (%d,) into shape (%d,)' % (len(v), self.ncols))
                self.rows[i] = list(v.vals)
            elif isinstance(v, (bool, int)):
                self.rows[i] = [bool(v)] * self.ncols
            else:
                raise Unsupported('boolean matrix row assignment of %r' % type(v).__name__)

    def __getitem__(self, key):
        if isinstance(key, slice):
            return BoolMat([self.rows[i] for i in range(*key.indices(len(self.rows)))], frozen=True)
        if isinstance(key, int):
            return BoolVec(self.rows[self._ix(key)])
        if isinstance(key, tuple) and len(key) == 2 and all(isinstance(k, int) for k in key):
            return self.rows[self._ix(key[0])][key[1]]
        raise Unsupported('boolean matrix read form')

    def __len__(self):
        return len(self.rows)


class Arr2:
    """2-D array of opaque cell values"""

    def __init__(self, rows, dtype='float32', c_contiguous=True):
        self.rows = [list(r) for r in rows]
        self.shape = (len(self.rows), len(self.rows[0]) if self.rows else 0)
        self.dtype = dtype
        self.c_contiguous = c_contiguous        # False: a strided view into a larger buffer

    def __setitem__(self, key, v):
        if isinstance(key, BoolMat):
            if key.shape != self.shape:
                raise IndexError('boolean index did not match indexed array along axis %d; size of axis is %d but size of corresponding boolean axis is %d'
                                 % ((0, self.shape[0], key.shape[0]) if key.shape[0] != self.shape[0] else (1, self.shape[1], key.shape[1])))
            for r, row in enumerate(key.rows):
                for c, flag in enumerate(row):
                    if flag:
                        self.rows[r][c] = v
            return
        if not (isinstance(key, tuple) and len(key) == 2):
            raise Unsupported('array assignment form')
        i, m = key
        if not isinstance(i, int) or not (0 <= i < self.shape[0]):
            raise IndexError('row index out of bounds')
        if isinstance(m, BoolVec):
            if len(m) != self.shape[1]:
                raise IndexError('boolean index did not match indexed array along axis 1; size of axis is %d but size of corresponding boolean axis is %d' % (self.shape[1], len(m)))
            for c, flag in enumerate(m.vals):
                if flag:
                    self.rows[i][c] = v
        elif isinstance(m, int):
            self.rows[i][m] = v
        else:
            raise Unsupported('array column index %r' % type(m).__name__)

    def __getitem__(self, key):
        if isinstance(key, tuple) and len(key) == 2 and all(isinstance(k, int) for k in key):
            return self.rows[key[0]][key[1]]
        raise Unsupported('array read form')


class NumpyModule:
    bool = bool
    bool_ = bool

    @staticmethod
    def ones(n, dtype=None):
        if not isinstance(n, int):
            raise Unsupported('numpy.ones shape')
        return BoolVec([True] * n)

    float32 = 'float32'
    float64 = 'float64'

    @staticmethod
    def _convert(a, dtype, need_contiguous):
        """numpy.asarray / ascontiguousarray on the 2-D stand-in: the same object when nothing has to change, else a detached copy
        (cells narrowed to float32 are marked: the value is a rounding of the original)"""
        if not isinstance(a, Arr2):
            raise Unsupported('numpy array conversion of %s' % type(a).__name__)
        dtype = a.dtype if dtype is None else dtype
        if dtype not in ('float32', 'float64'):
            raise Unsupported('numpy dtype %r' % (dtype,))
        if dtype == a.dtype and (a.c_contiguous or not need_contiguous):
            return a
        narrow = (a.dtype == 'float64' and dtype == 'float32')
        return Arr2([[('rounded-to-float32', x) if narrow else x for x in r] for r in a.rows], dtype=dtype, c_contiguous=True)

    @staticmethod
    def ascontiguousarray(a, dtype=None):
        return NumpyModule._convert(a, dtype, True)

    @staticmethod
    def asarray(a, dtype=None):
        return NumpyModule._convert(a, dtype, False)

    @staticmethod
    def zeros(shape, dtype=None):
        if dtype not in (bool, 'bool'):
            raise Unsupported('numpy.zeros of a non-boolean dtype')
        if isinstance(shape, int):
            return BoolVec([False] * shape)
        if isinstance(shape, tuple) and len(shape) == 2 and all(isinstance(x, int) for x in shape):
            return BoolMat([[False] * shape[1] for _ in range(shape[0])])
        raise Unsupported('numpy.zeros shape')

    def __getattr__(self, n):
        raise Unsupported('numpy.' + n)


NUMPY = NumpyModule()
