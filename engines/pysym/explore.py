"""Prefix-replay DFS over the decision tree of a harness, input drawing, concretisation of counterexamples."""
import time
import traceback
import z3
from . import state
from . import core
from .core import E, Abort, Unsupported, mk


class Alpha:
    """alphabet of code points: union of inclusive ranges minus excluded points"""

    def __init__(self, ranges, exclude=(), name=None):
        self.ranges = [tuple(r) for r in ranges]
        self.exclude = tuple(ord(c) if isinstance(c, str) else c for c in exclude)
        import hashlib
        self.name = (name or 'alpha') + '~' + hashlib.md5(repr((self.ranges, self.exclude)).encode()).hexdigest()[:6]

    def constrain(self, v):
        c = z3.Or(*[(v == lo) if lo == hi else z3.And(v >= lo, v <= hi) for lo, hi in self.ranges])
        return z3.And(c, *[v != x for x in self.exclude]) if self.exclude else c

    def ok(self, cp):
        return any(lo <= cp <= hi for lo, hi in self.ranges) and cp not in self.exclude

    def minus(self, chars, name=None):
        return Alpha(self.ranges, self.exclude + tuple(ord(c) if isinstance(c, str) else c for c in chars),
                     name or self.name + '-' + ''.join(chars if isinstance(chars, str) else map(chr, chars)))

    def describe(self):
        return {'ranges': ['%#x-%#x' % r for r in self.ranges], 'exclude': [chr(c) for c in self.exclude]}


# Appendix A token alphabet: printable, non-blank
TOKEN = Alpha([(0x21, 0x7E), (0xA1, 0xAC), (0xAE, 0xFF), (0x3041, 0x3096), (0x30A1, 0x30FA), (0x4E00, 0x9FFF),
               (0x1F600, 0x1F64F)], name='token')
ASCII = Alpha([(0x21, 0x7E)], name='ascii-printable')
LETTERS = Alpha([(65, 90), (97, 122)], name='letters')


class SymDraw:
    symbolic = True

    def __init__(self):
        self.vars = {}
        self.order = []

    def _reg(self, name, kind, v):
        if name in self.vars:
            raise RuntimeError('duplicate draw name ' + name)
        self.vars[name] = (kind, v)
        self.order.append(name)

    def string(self, name, n, alpha):
        def make():
            # the solver variable is specific to (name, length, alphabet): domain constraints live at the solver's base level
            # for the whole obligation, so one variable must never be declared with two different domains
            vs = [z3.Int('%s#%d|%d|%s' % (name, i, n, alpha.name)) for i in range(n)]
            return vs, [alpha.constrain(v) for v in vs], [(v, alpha) for v in vs]
        vs = E.declare('s:%s:%d:%s' % (name, n, alpha.name), make)
        self._reg(name, 'str', vs)
        return mk(vs)

    def char_in(self, name, chars):
        """one character among the given ones, symbolic"""
        def make():
            v = z3.Int('%s#0|in|%s' % (name, chars))
            return [v], [z3.Or(*[v == ord(c) for c in chars])], [(v, Alpha([(ord(c), ord(c)) for c in chars]))]
        vs = E.declare('c:%s:%s' % (name, chars), make)
        self._reg(name, 'str', vs)
        return mk(vs)

    def choice(self, name, k):
        if k <= 1:
            self._reg(name, 'const', 0)
            return 0

        def make():
            v = z3.Int('%s|%d' % (name, k))
            return (v, [v == i for i in range(k)]), [z3.And(v >= 0, v < k)], []
        v, eqs = E.declare('i:%s:%d' % (name, k), make)
        self._reg(name, 'int', v)
        for i in range(k - 1):
            if E.decide(eqs[i]):
                return i
        return k - 1

    def boolean(self, name):
        return self.choice(name, 2) == 1

    def pick(self, name, seq):
        seq = list(seq)
        return seq[self.choice(name, len(seq))]

    def witness(self):
        """a concrete draw satisfying the current path condition (solver-chosen representative of this path's region)"""
        if E._check() != z3.sat:
            raise Abort()
        return ConcDraw(self.concretize(E.solver.model()))

    def concretize(self, model):
        out = {}
        for name in self.order:
            kind, v = self.vars[name]
            if kind == 'str':
                out[name] = ''.join(chr(model.eval(c, model_completion=True).as_long()) for c in v)
            elif kind == 'int':
                out[name] = model.eval(v, model_completion=True).as_long()
            else:
                out[name] = v
        return out


class ConcDraw:
    symbolic = False

    def __init__(self, values):
        self.values = values
        self.used = set()

    def _get(self, name):
        if name not in self.values:
            raise KeyError('replay file has no value for draw ' + name)
        self.used.add(name)
        return self.values[name]

    def witness(self):
        return ConcDraw(self.values)

    def string(self, name, n, alpha):
        s = self._get(name)
        assert len(s) == n and all(alpha.ok(ord(c)) for c in s), 'replay value outside the input space: %r' % (s,)
        return s

    def char_in(self, name, chars):
        s = self._get(name)
        assert s in list(chars)
        return s

    def choice(self, name, k):
        v = self._get(name)
        assert 0 <= v < max(k, 1)
        return v

    def boolean(self, name):
        return self.choice(name, 2) == 1

    def pick(self, name, seq):
        seq = list(seq)
        return seq[self.choice(name, len(seq))]


class Prefixed:
    """a view of a draw object whose names carry a prefix (a second, independent copy of a sub-harness's inputs)"""

    def __init__(self, d, prefix):
        self.d, self.prefix = d, prefix
        self.symbolic = d.symbolic

    def string(self, name, n, alpha):
        return self.d.string(self.prefix + name, n, alpha)

    def char_in(self, name, chars):
        return self.d.char_in(self.prefix + name, chars)

    def choice(self, name, k):
        return self.d.choice(self.prefix + name, k)

    def boolean(self, name):
        return self.d.boolean(self.prefix + name)

    def pick(self, name, seq):
        return self.d.pick(self.prefix + name, seq)


PATH_SECONDS = 90


class PathTimeout(BaseException):
    """raised by the per-path watchdog (BaseException: harnesses catch Exception to classify what the code under test raises)"""


def _on_alarm(signum, frame):
    raise PathTimeout()


def _arm(seconds):
    import signal
    try:
        signal.signal(signal.SIGALRM, _on_alarm)
        signal.setitimer(signal.ITIMER_REAL, seconds)
    except (ValueError, OSError):      # not in the main thread of the worker
        pass


def explore(fn, max_paths=200000, max_seconds=600.0, sample_paths=3, keep_violations=50):
    """fn(draw) -> True | failure tuple.  Returns a result dict."""
    t0 = time.time()
    q0, s0 = E.queries, E.solver_s
    work = [([], [])]
    E.new_obligation()
    res = dict(paths=0, aborted=0, decisions=0, violations=[], unsupported=[], samples=[], exhaustive=True,
               failures_by_sig={}, leaks=0)
    while work:
        if res['paths'] + res['aborted'] >= max_paths or time.time() - t0 > max_seconds:
            res['exhaustive'] = False
            res['unexplored_prefixes'] = len(work)
            break
        p, ph = work.pop()
        E.reset(p)
        state.restore()       # each path is a fresh run of the code under test: module-level caches start as at import
        E.prefix_hash = ph
        core._choice_counter[0] = 0
        d = SymDraw()
        ok = None
        try:
            _arm(PATH_SECONDS)
            try:
                ok = fn(d)
            finally:
                _arm(0)
        except PathTimeout:
            # one path ran far longer than any path should: non-termination (of the code under test on this input, or of the string
            # model).  Nothing is claimed; the witness is reported so that the input can be tried on the real code.
            try:
                wit = d.concretize(E.solver.model()) if E._check() == z3.sat else None
            except Exception:
                wit = None
            res['unsupported'].append('one path ran longer than %d s (non-termination?) @ %s; inputs so far: %r' % (PATH_SECONDS, _where(), wit))
            res['exhaustive'] = False
            E.active = False
            break
        except MemoryError:
            res['unsupported'].append('out of memory on one path @ %s' % _where())
            res['exhaustive'] = False
            E.active = False
            break
        except Abort:
            ok = None
            res['aborted'] += 1
        except Unsupported as e:
            res['unsupported'].append('%s @ %s' % (e, _where()))
            ok = None
            res['exhaustive'] = False
        except RecursionError:
            res['unsupported'].append('RecursionError')
            ok = None
            res['exhaustive'] = False
        finally:
            E.active = False
        tr = E.trace
        th = E.trace_hash
        for i in range(len(p), len(tr)):
            if E.both[i]:
                work.append((tr[:i] + [not tr[i]], th[:i + 1]))
        if ok is None:
            continue
        res['paths'] += 1
        res['decisions'] += len(tr)
        if ok is not True and core.leak_scan(ok):
            res['leaks'] += 1
            res['unsupported'].append('sentinel leak in %r' % (ok[0] if isinstance(ok, tuple) else ok,))
            continue
        need_model = ok is not True or len(res['samples']) < sample_paths
        if need_model:
            r = E._check()
            if r != z3.sat:
                res['unsupported'].append('final check %s' % r)
                continue
            draws = d.concretize(E.solver.model())
            if ok is True:
                res['samples'].append(draws)
            else:
                sig = str(ok[0]) if isinstance(ok, tuple) else str(ok)
                n = res['failures_by_sig'].get(sig, 0)
                res['failures_by_sig'][sig] = n + 1
                if n < keep_violations:
                    res['violations'].append({'signature': sig, 'detail': _plain(ok), 'draws': draws})
    res['queries'] = E.queries - q0
    res['solver_s'] = round(E.solver_s - s0, 3)
    res['wall_s'] = round(time.time() - t0, 3)
    return res


def _where():
    tb = traceback.extract_tb(__import__('sys').exc_info()[2])
    for fr in reversed(tb):
        if '/engines/pysym/' not in fr.filename:
            return '%s:%d' % (fr.filename, fr.lineno)
    return '?'


def _plain(x, depth=0):
    if isinstance(x, core.SymStr):
        return '<sym:%d>' % len(x)
    if isinstance(x, (str, int, float, bool)) or x is None:
        return x
    if isinstance(x, (list, tuple)) and depth < 4:
        return [_plain(y, depth + 1) for y in x]
    try:
        return core.sym_str(x) if not core.is_sym(core.sym_str(x)) else '<sym>'
    except BaseException:
        return '<%s>' % type(x).__name__
