"""C20 — PTB and Japanese-bank text written by depccg reads back to the same tree."""
from lib.framework import Obligation
from lib import env, trees
from lib.trees import TreeBuilder, SHAPES, shape_name, nleaves
from engines.pysym import hook
from engines.pysym.explore import TOKEN, Alpha
from engines.pysym.core import sym_str, sjoin, is_sym
from lib.catgen import PLAIN

FUNCTIONS = ['depccg.printer.ptb.ptb_of', 'depccg.tools.reader.read_ptb/_parse_ptb', 'depccg.printer.ja.ja_of', 'depccg.tools.ja.reader.read_ccgbank/_JaCCGLineReader',
             'depccg.utils.normalize', 'depccg.cat.Category.parse/__str__', 'depccg.grammar.guess_combinator_by_triplet']
BOUNDS = {
    'quick': 'trees of <= 3 leaves incl. unary nodes; one leaf at a time with a symbolic word of 1-3 code points (printable non-blank, no backslash; ja: also without / { }); whole-token brackets; every proper prefix of a printed PTB line; Japanese categories with and without {..} annotations (1-2 symbolic characters) and _suffix on leaf categories',
    'thorough': 'trees of <= 4 leaves, two symbolic leaves at a time',
}
OUTSIDE = 'longer tokens; PTB tokens that begin with "(" or end with ")" are a recorded finding (the format does not escape them)'
ASSUMPTIONS = ['token alphabet as C08; categories concrete from shipped-style inventories; file reading replaced by an iterator over the printed lines in symbolic runs']

AL = TOKEN.minus('\\', 'token-no-backslash')
AL_JA = TOKEN.minus('\\/{}', 'token-ja')


def _word(focus, n, al, fixed=None):
    def f(d, name, i):
        if i not in focus:
            return 'w%d' % i
        if fixed is not None:
            return fixed
        return d.string(name, n, al)
    return f


def _ptb_known(words):
    """region of the recorded finding: a token that begins with '(' or ends with ')' (PTB text does not escape brackets)"""
    for w in words:
        if len(w) and (w[0] == '(' or w[-1] == ')'):
            return True
    return False


def h_ptb(d, shape, focus, n, fixed=None):
    from depccg.printer.ptb import ptb_of
    from depccg.tools import reader
    env.install_open(reader)
    tb = TreeBuilder(d, 'en', word=_word(focus, n, AL, fixed), heads=True)
    t = tb.build(shape)
    line = ptb_of(t)
    words = [l.token['word'] for l in t.leaves]
    f = env.write_file('c20.ptb', [line])
    try:
        res = list(reader.read_ptb(f))
    except Exception as e:
        if _ptb_known(words):
            return ('ptb.bracket-token.read-raises:' + type(e).__name__, sym_str(line))
        return ('ptb.read-raises:' + type(e).__name__, sym_str(line))
    known = _ptb_known(words)
    tag = 'ptb.bracket-token.' if known else 'ptb.'
    if len(res) != 1:
        return (tag + 'count', len(res))
    t2 = res[0].tree
    why = trees.same_structure(t, t2, heads=False)
    if why:
        return (tag + 'tree-differs.' + why, sym_str(line))
    for a, b in zip(t.leaves, t2.leaves):
        if b.token['word'] != a.token['word']:
            return (tag + 'word-differs', sym_str(line))
    return True


def h_ptb_prefix(d, shape, focus, n):
    """every proper prefix of a printed line is rejected with an error instead of yielding a tree"""
    from depccg.printer.ptb import ptb_of
    from depccg.tools import reader
    env.install_open(reader)
    tb = TreeBuilder(d, 'en', word=_word(focus, n, AL.minus('()', 'token-no-brackets')), heads=True)
    t = tb.build(shape)
    line = ptb_of(t)
    k = d.choice('cut', len(line) - 1) + 1        # 1 .. len-1 characters kept
    pre = line[:k]
    if len(pre.strip()) == 0:
        return True
    f = env.write_file('c20p.ptb', [pre])
    try:
        res = list(reader.read_ptb(f))
    except Exception:
        return True
    if len(res) == 0:
        return True
    return ('ptb.truncated-line-accepted', sym_str(pre), k)


def _annotate(d, text_cat, name, mode, cat=None):
    """bank-style dependency annotation: appended to a category text (mode 1, 2: that many symbolic characters), or after every atom of
    the category as the bank writes it (mode 'atoms': S[..]{x}\\NP[..]{y}; the first two annotations of a category symbolic)"""
    if mode == 0:
        return text_cat
    if mode == 'atoms':
        k = [0]

        def rec(c, top):
            if c.is_functor:
                t = sjoin('', [rec(c.left, False), c.slash, rec(c.right, False)])
                return t if top else sjoin('', ['(', t, ')'])
            k[0] += 1
            a = d.string('%s.%d' % (name, k[0]), 1, PLAIN) if k[0] <= 2 else 'I%d' % k[0]
            return sjoin('', [sym_str(c), '{', a, '}'])
        return rec(cat, True)
    a = '{' + d.string(name, mode, PLAIN) + '}'
    return text_cat + a


def h_ja(d, shape, focus, n, ann, suffix):
    """ja_of -> read_ccgbank; with ann > 0 the harness inserts {..} annotations after every category (and _xx after leaf categories)"""
    from depccg.printer.ja import ja_of
    from depccg.tools.ja import reader as jr
    from depccg.utils import normalize
    env.install_open(jr)
    tb = TreeBuilder(d, 'ja', word=_word(focus, n, AL_JA), heads=False, labels='sym')
    t = tb.build(shape)
    if ann == 0 and not suffix:
        line = ja_of(t)
    else:
        cnt = [0]

        def rec(node):
            cnt[0] += 1
            c = _annotate(d, sym_str(node.cat), 'ann%d' % cnt[0], ann, node.cat)
            if node.is_leaf:
                if suffix == 'args':       # the bank's predicate-argument suffix with unfilled slots: _I1(I2,_,_)
                    c = c + '_' + d.string('suf%d' % cnt[0], 1, PLAIN) + '(' + d.string('sub%d' % cnt[0], 1, PLAIN) + ',_,_)'
                elif suffix:
                    c = c + '_' + d.string('suf%d' % cnt[0], 1, PLAIN)
                w = normalize(node.word)
                return sjoin('', ['{', c, ' ', w, '/', w, '/', '名詞-一般', '/', '_', '}'])
            return sjoin('', ['{', node.op_symbol, ' ', c, ' ', sjoin(' ', [rec(ch) for ch in node.children]), '}'])
        line = rec(t)
        if ann == 0 and not suffix and line != ja_of(t):
            return ('harness-printer-differs',)
    f = env.write_file('c20.ja', [line])
    try:
        res = list(jr.read_ccgbank(f))
    except Exception as e:
        return ('ja.read-raises:' + type(e).__name__, sym_str(line))
    if len(res) != 1:
        return ('ja.count', len(res))
    t2 = res[0].tree
    why = trees.same_structure(t, t2, heads=False, symbols=True)
    if why:
        return ('ja.tree-differs.' + why, sym_str(line))
    for a, b in zip(t.leaves, t2.leaves):
        if b.token['word'] != normalize(a.token['word']):
            return ('ja.word-differs', sym_str(line))
    return True


def obligations(tier):
    q = tier == 'quick'
    shapes = [s for k in ((1, 2, 3) if q else (1, 2, 3, 4)) for s in SHAPES[k]]
    for s in shapes:
        nl = nleaves(s)
        for i in range(nl):
            for n in (1, 2, 3):
                if q and n == 3 and nl > 2:
                    continue
                yield Obligation('C20.ptb[%s,leaf=%d,word=%d]' % (shape_name(s), i, n), 'h_ptb', dict(shape=s, focus=[i], n=n), cost=n)
                yield Obligation('C20.ja[%s,leaf=%d,word=%d]' % (shape_name(s), i, n), 'h_ja', dict(shape=s, focus=[i], n=n, ann=0, suffix=False), cost=n + 2)
            for br in '()[]{}':
                yield Obligation('C20.ptb[%s,leaf=%d,word=%r]' % (shape_name(s), i, br), 'h_ptb', dict(shape=s, focus=[i], n=1, fixed=br), cost=1)
            if nl <= 2 or not q:
                yield Obligation('C20.ptb-prefix[%s,leaf=%d]' % (shape_name(s), i), 'h_ptb_prefix', dict(shape=s, focus=[i], n=1), cost=8)
        for ann, suffix in ((1, False), (2, True), (0, True), ('atoms', False), (0, 'args')):
            if q and nl > 2 and ann in (2, 'atoms'):
                continue
            yield Obligation('C20.ja-annotated[%s,ann=%s,suffix=%s]' % (shape_name(s), ann, suffix), 'h_ja', dict(shape=s, focus=[0], n=1, ann=ann, suffix=suffix), cost=6)
