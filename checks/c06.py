"""C06 — pattern matching of categories succeeds exactly when it should (depccg/unification.py)."""
import ast
import os
from lib.framework import Obligation
from lib import catgen
from lib.catgen import Builder, shapes_upto, shape_name, nleaves, PLAIN
from engines.pysym import hook
from engines.pysym.core import sym_str
from oracles import schemata_en as S
from oracles import schemata_ja as J

FUNCTIONS = ['depccg.unification.Unification.__init__/__call__ (scan, scan_deep, feature loop)/__getitem__',
             'depccg.cat.Category.parse (patterns)', 'Atom/Functor.__xor__', 'UnaryFeature/TernaryFeature.unifies/is_variable/is_ignorable']
BOUNDS = {
    'quick': 'every pattern pair passed to Unification(...) in en.py/ja.py (read from the AST) plus 6 synthetic pairs; inputs: the pattern shape with each variable standing for 1 leaf or (one at a time) 2 leaves, and every shape obtained by collapsing one functor node (non-matching); all slashes symbolic over / \\ |; unary features (absent or 1-2 symbolic code points per leaf, so X and nb are inside) and three-part features (two focus leaves fully symbolic)',
    'thorough': 'same with two variables expanded at a time and feature strings up to 3 code points',
}
OUTSIDE = 'patterns in which one variable occurs twice inside the same pattern (the statement speaks of variables shared by the two patterns); larger inputs'
ASSUMPTIONS = ['feature compatibility is required between the occurrences of a variable in the two patterns (the statement\'s "corresponding positions")',
               'unary system: compatible = equal, or one side absent / nb / X; three-part system: one triple subsumes the other position-wise']


def pattern_pairs():
    pats = set()
    for f in ('depccg/grammar/en.py', 'depccg/grammar/ja.py'):
        tree = ast.parse(open(os.path.join(hook.REPO, f), encoding='utf-8').read())
        for n in ast.walk(tree):
            if isinstance(n, ast.Call) and getattr(n.func, 'id', None) == 'Unification' and len(n.args) == 2 \
                    and all(isinstance(a, ast.Constant) and isinstance(a.value, str) for a in n.args):
                pats.add(tuple(a.value for a in n.args))
    pats |= {('a|b', 'b'), ('b', 'a|b'), ('(a/b)\\c', 'b|c'), ('a/(b\\c)', 'c/b'), ('a', 'a'), ('a\\(b/c)', '(c|d)/b')}
    return sorted(pats)


def pshape(p):
    """pattern text -> nested tuple of variable names / (l, slash, r)"""
    from depccg.cat import Category
    c = Category.parse(p)

    def rec(c):
        return c.base if c.is_atomic else (rec(c.left), c.slash, rec(c.right))
    return rec(c)


def pvars(ps):
    return [ps] if isinstance(ps, str) else pvars(ps[0]) + pvars(ps[2])


def expansions(ps, k):
    """input shapes: variables expanded (<= k of them to 2 leaves), plus collapsed variants; returns list of (shape, label)"""
    import itertools
    vs = pvars(ps)
    out = []

    def inst(ps, big):
        if isinstance(ps, str):
            return ('a', 'a') if ps in big else 'a'
        return (inst(ps[0], big), inst(ps[2], big))
    for r in range(0, k + 1):
        for big in itertools.combinations(vs, r):
            out.append((inst(ps, set(big)), 'expand=' + ''.join(big)))

    def collapse(ps, path, target):
        if path == target:
            return 'a'
        if isinstance(ps, str):
            return 'a'
        return (collapse(ps[0], path + 'l', target), collapse(ps[2], path + 'r', target))

    def nodes(ps, path=''):
        if isinstance(ps, str):
            return []
        return [path] + nodes(ps[0], path + 'l') + nodes(ps[2], path + 'r')
    for t in nodes(ps):
        out.append((collapse(ps, '', t), 'collapse@' + (t or 'root')))
    seen, res = set(), []
    for s, l in out:
        if s not in seen:
            seen.add(s)
            res.append((s, l))
    return res


# ---- reference matcher, written from the statement -----------------------------------------------------------------

def ref_scan(ps, t, binds):
    if isinstance(ps, str):
        binds.setdefault(ps, []).append(t)
        return True
    if t.is_atomic:
        return False
    pl, sl, pr = ps
    ok = (t.slash == sl) or sl == '|' or (t.slash == '|')
    if not ok:
        return False
    return ref_scan(pl, t.left, binds) and ref_scan(pr, t.right, binds)


def fcompat(f, g):
    if J.triple(f) is not None or J.triple(g) is not None:
        return J.fcompat(f, g)
    return S.fcompat(f, g)


def is_var_feature(f):
    if J.triple(f) is not None:
        return J.has_var(f)
    return S.is_var(S.fval(f))


def ref_match(psx, psy, x, y):
    bx, by = {}, {}
    if not ref_scan(psx, x, bx):
        return False, None, None
    if not ref_scan(psy, y, by):
        return False, None, None
    for k in bx:
        if k in by:
            a, b = bx[k][0], by[k][0]
            if not S.shape_eq(a, b):
                return False, None, None
    for k in bx:
        if k in by:
            a, b = bx[k][0], by[k][0]
            for p, q in zip(S.leaves(a), S.leaves(b)):
                if not fcompat(p.feature, q.feature):
                    return False, None, None
    return True, bx, by


def binding_ok(b, occ, inputs):
    """b is one of the matched occurrences up to: a leaf feature may be that of another occurrence, or - where an occurrence has
    a variable feature there - any feature occurring in the inputs"""
    if not all(S.shape_eq(b, o) for o in occ):
        return False
    pool = [l.feature for i in inputs for l in S.leaves(i)]
    cols = list(zip(*[S.leaves(o) for o in occ]))
    for bl, col in zip(S.leaves(b), cols):
        if any(S.feq(bl.feature, o.feature) for o in col):
            continue
        if any(is_var_feature(o.feature) for o in col) and any(S.feq(bl.feature, f) for f in pool):
            continue
        return False
    return True


def h_match(d, px, py, sx, sy, feat, lf, full, fmodes, smodes):
    from depccg.unification import Unification
    psx, psy = pshape(px), pshape(py)
    nx = nleaves(sx)
    fx = None if full is None else {i for i in full if i < nx}
    fy = None if full is None else {i - nx for i in full if i >= nx}
    kw = dict(lb=1, lf=lf, feat=feat, slashes='/\\|', base_alpha=PLAIN, keys=('k1', 'k2', 'k3'))
    x = Builder(d, 'x', full=fx, fmodes=fmodes[0], smodes=smodes[0], **kw).build(sx)
    y = Builder(d, 'y', full=fy, fmodes=fmodes[1], smodes=smodes[1], **kw).build(sy)
    uni = Unification(px, py)
    try:
        got = uni(x, y)
    except Exception as e:
        return ('call-raises:' + type(e).__name__, sym_str(x), sym_str(y))
    if not isinstance(got, bool):
        return ('verdict-not-bool',)
    exp, bx, by = ref_match(psx, psy, x, y)
    if got != exp:
        return ('verdict.got-%s.expected-%s' % (got, exp), px, py, sym_str(x), sym_str(y))
    names = sorted(set(pvars(psx) + pvars(psy)))
    if got:
        for k in names:
            occ = bx.get(k, []) + by.get(k, [])
            try:
                b = uni[k]
            except Exception as e:
                return ('binding-unreadable-after-success:' + type(e).__name__, k)
            if not binding_ok(b, occ, (x, y)):
                return ('binding-wrong', k, sym_str(b), sym_str(x), sym_str(y))
    else:
        for k in names:
            try:
                uni[k]
            except Exception:
                continue
            return ('binding-readable-after-failure', k, sym_str(x), sym_str(y))
    try:
        uni(x, y)
    except Exception:
        return True
    return ('answers-twice',)


def layout(ps, shape):
    """walk pattern shape and input shape together: per leaf the pattern variable it belongs to (None when the shapes do not
    fit), per functor node (in-order) the default slash"""
    leaf_var, node_slash = [], []

    def inside(shape, var):
        if shape == 'a':
            leaf_var.append(var)
            return
        inside(shape[0], var)
        node_slash.append('/')
        inside(shape[1], var)

    def rec(ps, shape):
        if isinstance(ps, str):
            inside(shape, ps)
            return
        if shape == 'a':
            leaf_var.append(None)
            return
        rec(ps[0], shape[0])
        node_slash.append('/' if ps[1] == '|' else ps[1])
        rec(ps[2], shape[1])
    rec(ps, shape)
    return leaf_var, node_slash


def base_obligations(tier):
    q = tier == 'quick'
    for px, py in pattern_pairs():
        psx, psy = pshape(px), pshape(py)
        if len(set(pvars(psx))) != len(pvars(psx)) or len(set(pvars(psy))) != len(pvars(psy)):
            continue
        shared = set(pvars(psx)) & set(pvars(psy))
        ex = expansions(psx, 1 if q else 2)
        ey = expansions(psy, 1 if q else 2)
        for (sx, lx) in ex:
            for (sy, ly) in ey:
                n = nleaves(sx) + nleaves(sy)
                if n > (8 if q else 10):
                    continue
                cx, cy = lx.startswith('collapse'), ly.startswith('collapse')
                if cx and cy:
                    continue
                ev = {l[len('expand='):] for l in (lx, ly) if l.startswith('expand=')}
                if q:
                    # quick: expand shared variables only (on both sides together or on one side), at most 7 leaves
                    if any(v and v not in shared for v in ev) or n > 7:
                        continue
                elif sum(len(v) for v in ev) > 2 and any(ch not in shared for v in ev for ch in v):
                    continue      # thorough: two-variable expansions only among shared variables
                lvx, nsx = layout(psx, sx)
                lvy, nsy = layout(psy, sy)
                fm = (['m' if v in shared else 'u' for v in lvx], ['m' if v in shared else 'u' for v in lvy])
                nodes = [('x', i) for i in range(len(nsx))] + [('y', i) for i in range(len(nsy))]
                variants = [None] + nodes
                if q:
                    variants = variants[:1] + (variants[1::max(1, (len(variants) - 1) // 2)][:2] if not (cx or cy) else [])
                else:
                    variants = variants[:1] + variants[1::max(1, (len(variants) - 1) // 4)][:4]
                for var in variants:
                    sm = (list(nsx), list(nsy))
                    if var is not None:
                        sm[0 if var[0] == 'x' else 1][var[1]] = '/\\|'
                    for feat, lf in (('mixed', 1), ('mixed', 2), ('ternary', 1)) if q else (('mixed', 1), ('mixed', 2), ('mixed', 3), ('ternary', 1), ('ternary', 2)):
                        if feat == 'mixed':
                            if lf > 1 and (cx or cy or var is not None):
                                continue
                            fulls = [None]
                        else:
                            if cx or cy:
                                fulls = [[]] if var is None else []
                            else:
                                nx = nleaves(sx)
                                fulls = [[i, nx + j] for i, v in enumerate(lvx) for j, w in enumerate(lvy) if v is not None and v == w]
                                if var is not None or (q and lf > 1):
                                    fulls = fulls[:1]
                                elif not q:
                                    fulls = fulls[:3]
                        for full in fulls:
                            yield Obligation('C06.match[%s ~ %s | x:%s y:%s | slash@%s | %s lf=%d full=%s]' % (px, py, lx, ly, var, feat, lf, full), 'h_match',
                                             dict(px=px, py=py, sx=sx, sy=sy, feat=feat, lf=lf, full=full, fmodes=fm, smodes=sm), cost=n * n)


def deep_obligations(tier):
    """shared variables standing for sub-categories of 3-4 leaves (an argument that is itself a functor, followed by more leaves):
    every leaf of the shared binding carries a symbolic feature, the other leaves none"""
    q = tier == 'quick'
    import itertools

    def inst(ps, var, shape):
        if isinstance(ps, str):
            return shape if ps == var else 'a'
        return (inst(ps[0], var, shape), inst(ps[2], var, shape))
    deep = [(('a', ('a', 'a')), 'a'), ('a', (('a', 'a'), 'a')), (('a', 'a'), ('a', 'a')), ((('a', 'a'), 'a'), 'a'), ('a', ('a', ('a', 'a')))]
    deep3 = [(('a', 'a'), 'a'), ('a', ('a', 'a'))]
    seen = set()
    for px, py in pattern_pairs():
        psx, psy = pshape(px), pshape(py)
        if len(set(pvars(psx))) != len(pvars(psx)) or len(set(pvars(psy))) != len(pvars(psy)):
            continue
        shared = sorted(set(pvars(psx)) & set(pvars(psy)))
        for v in shared:
            for shape in (deep3 + deep[:2]) if q else (deep3 + deep):
                sx, sy = inst(psx, v, shape), inst(psy, v, shape)
                n = nleaves(sx) + nleaves(sy)
                if n > (12 if q else 14):
                    continue
                lvx, nsx = layout(psx, sx)
                lvy, nsy = layout(psy, sy)
                fm = (['u' if w == v else 'n' for w in lvx], ['u' if w == v else 'n' for w in lvy])
                sm = (list(nsx), list(nsy))
                for feat in (('mixed',) if q else ('mixed', 'ternary')):
                    if feat == 'ternary':
                        nx = nleaves(sx)
                        pairs = [[i, nx + j] for i, a in enumerate(lvx) for j, b in enumerate(lvy) if a == v and b == v]
                        # corresponding leaves of the two occurrences
                        ix = [i for i, a in enumerate(lvx) if a == v]
                        iy = [j for j, b in enumerate(lvy) if b == v]
                        fulls = [[i, nx + j] for i, j in zip(ix, iy)]
                        if q:
                            fulls = fulls[-2:]
                    else:
                        fulls = [None]
                    for full in fulls:
                        key = (px, py, v, str(shape), feat, str(full))
                        if key in seen:
                            continue
                        seen.add(key)
                        yield Obligation('C06.deep[%s ~ %s | %s:=%s | %s full=%s]' % (px, py, v, shape_name(shape), feat, full), 'h_match',
                                         dict(px=px, py=py, sx=sx, sy=sy, feat=feat, lf=1, full=full, fmodes=fm, smodes=sm), cost=n * n)


def obligations(tier):
    yield from base_obligations(tier)
    yield from deep_obligations(tier)
