"""C05 — category text and category values round-trip (depccg/cat.py: Category.parse, __str__, Feature.parse)."""
import time
import z3
from lib.framework import Obligation
from lib import catgen, framework, ground
from lib.catgen import Builder, shapes_upto, shapes, shape_name, CATCHAR, FEATCHAR, TERNCHAR
from engines.pysym.core import sym_str, safe_str, mk, E, chars_of, sym_join

FUNCTIONS = ['depccg.cat.Category.parse (incl. the cat_split tokenizer regex, run by the engine\'s matcher on symbolic text)',
             'depccg.cat.Feature.parse', 'depccg.cat.Atom/Functor/UnaryFeature/TernaryFeature.__str__', '__eq__']
BOUNDS = {
    'quick': 'values with <= 3 leaves, atom/feature strings of 1-2 symbolic code points (3-4 for single atoms so that conj/LRB/RRB are inside); redundant bracketing: <= 2 extra pairs on one node, bracket kind symbolic at every node, blanks at one symbolic place or everywhere; ambiguous text: 3-4 atoms',
    'thorough': 'values with <= 4 leaves, strings of 1-3 code points (<= 7 for single atoms: *START*); same bracketing space on <= 4 leaves',
}
OUTSIDE = 'larger categories/longer strings; atoms or features containing delimiters or blanks (not well-formed text); unary features containing "," (they read as three-part features)'
ASSUMPTIONS = ['atom/feature characters: printable non-blank ASCII, Latin-1, kana, CJK except the eight delimiters []()/\\|<> ; unary feature text without ","; three-part feature keys/values without "," and "="',
               'ground part: every category string in the shipped targets/seen_rules/unary_rules/cat_dict files and tests/cats*.txt is parsed and printed concretely (exhaustive over the files)']


def _mk(d, shape, lb, lf, feat, full=None):
    return Builder(d, 'v', lb=lb, lf=lf, feat=feat, base_alpha=CATCHAR, feat_alpha=FEATCHAR, tern_alpha=TERNCHAR,
                   slashes='/\\|', full=None if full is None else set(full)).build(shape)


def _fulls(n, k):
    """choices of the leaves that range over the full alphabet (the others over the plain one)"""
    import itertools
    if k >= n:
        return [None]
    return [list(c) for c in itertools.combinations(range(n), k)]


def _parse(text):
    C = catgen.cats()
    try:
        return C.Category.parse(text), None
    except Exception as e:
        return None, type(e).__name__


def _known_punct_feature(v):
    """region of the recorded finding: a punctuation atom (one of cat.punctuations) that carries a feature"""
    C = catgen.cats()
    for a in catgen.leaves(v):
        if sym_str(a.feature) != '' and a.base in C.punctuations:
            return True
    return False


def h_print_parse(d, shape, lb, lf, feat, full=None):
    v = _mk(d, shape, lb, lf, feat, full)
    t = sym_str(v)
    r, err = _parse(t)
    if err or not (r == v):
        kind = 'raises:' + err if err else 'differs'
        if _known_punct_feature(v):
            return ('print-parse.punct-atom-with-feature.' + kind, t)
        return ('print-parse.' + kind, t, safe_str(r) if r is not None else None)
    if sym_str(r) != t:
        return ('print-parse.reprint-differs', t)
    return True


def _render(d, v, extra_at, extra_n, blank_mode):
    """well-formed text of v with redundant brackets (kind symbolic per pair) and blanks"""
    parts = []
    counter = [0]
    nodes = [0]

    def bracket():
        counter[0] += 1
        o = d.char_in('br%d' % counter[0], '(<')
        oc = chars_of(o)[0]
        if isinstance(oc, int):
            c = ')' if o == '(' else '>'
        else:
            c = mk([z3.If(oc == 40, z3.IntVal(41), z3.IntVal(62))])
        return o, c

    def emit(x, needs):
        idx = nodes[0]
        nodes[0] += 1
        pairs = (1 if needs else 0) + (extra_n if idx == extra_at else 0)
        closers = []
        for _ in range(pairs):
            o, c = bracket()
            parts.append(o)
            closers.append(c)
        if x.is_functor:
            emit(x.left, x.left.is_functor)
            parts.append(x.slash)
            emit(x.right, x.right.is_functor)
        else:
            parts.append(x.base)
            f = sym_str(x.feature)
            if len(f):
                parts.extend(['[', f, ']'])
        for c in reversed(closers):
            parts.append(c)
    emit(v, False)
    n = len(parts)
    if blank_mode == 'all':
        out = []
        for p in parts:
            out.extend([' ', p])
        out.append(' ')
        return sym_join(out), nodes[0]
    if blank_mode == 'one':
        k = d.choice('blank_at', n + 1)
        parts.insert(k, '  ')
    return sym_join(parts), nodes[0]


def _count_nodes(shape):
    return 1 if shape == 'a' else 1 + _count_nodes(shape[0]) + _count_nodes(shape[1])


def h_redundant(d, shape, lb, lf, feat, extra_n, blank_mode, full=None):
    v = _mk(d, shape, lb, lf, feat, full)
    extra_at = d.choice('extra_at', _count_nodes(shape)) if extra_n else -1
    text, _ = _render(d, v, extra_at, extra_n, blank_mode)
    r, err = _parse(text)
    if err or not (r == v):
        kind = 'raises:' + err if err else 'differs'
        if _known_punct_feature(v):
            return ('redundant.punct-atom-with-feature.' + kind, text)
        return ('redundant.' + kind, text)
    if sym_str(r) != sym_str(v):
        return ('redundant.print-differs', text)
    return True


def h_ambiguous(d, n, lb, where, full):
    """n atoms joined by n-1 unbracketed slashes at one level (n >= 3), at top level or inside a bracket"""
    atoms = [d.string('a%d' % i, lb, CATCHAR if i in full else catgen.PLAIN) for i in range(n)]
    sl = [d.char_in('s%d' % i, '/\\|') for i in range(n - 1)]
    parts = [atoms[0]]
    for i in range(1, n):
        parts += [sl[i - 1], atoms[i]]
    flat = sym_join(parts)
    if where == 'top':
        text = flat
    else:
        o = d.char_in('o', '(<')
        c = ')' if o == '(' else '>'
        inner = sym_join([o, flat, c])
        if where == 'left':
            text = sym_join([inner, d.char_in('so', '/\\|'), d.string('z', lb, CATCHAR)])
        elif where == 'right':
            text = sym_join([d.string('z', lb, CATCHAR), d.char_in('so', '/\\|'), inner])
        else:
            text = inner
    r, err = _parse(text)
    if err is None:
        return ('ambiguous-text-accepted', text, safe_str(r))
    return True


def obligations(tier):
    q = tier == 'quick'
    L = 3 if q else 4
    for feat in ('mixed', 'ternary'):
        for shape in shapes_upto(L):
            n = catgen.nleaves(shape)
            if n == 1:
                lens = [(1, 1), (2, 2), (3, 1), (4, 1)] if q else [(1, 1), (2, 2), (3, 3), (4, 2), (5, 1), (6, 1), (7, 1)]
            elif n == 2:
                lens = [(1, 1), (2, 1)] if q else [(1, 1), (2, 2), (3, 1), (4, 1)]
            else:
                lens = [(1, 1)] if q else ([(1, 1), (2, 1)] if n == 3 else [(1, 1)])
            for lb, lf in lens:
                if feat == 'ternary' and n * lf > 4:
                    continue
                k = 2 if n <= 2 else (1 if q or n == 4 else 2)
                if lb >= 3 and n == 2:
                    k = 1
                for full in _fulls(n, k):
                    yield Obligation('C05.print-parse[%s,lb=%d,lf=%d,%s,full=%s]' % (shape_name(shape), lb, lf, feat, full), 'h_print_parse',
                                     dict(shape=shape, lb=lb, lf=lf, feat=feat, full=full), cost=n * lb)
    for shape in shapes_upto(3 if q else 4):
        n = catgen.nleaves(shape)
        for extra_n, blank_mode in ((0, 'none'), (1, 'none'), (2, 'none'), (0, 'one'), (1, 'all'), (2, 'one')):
            if q and n == 3 and (extra_n, blank_mode) in ((2, 'one'),):
                continue
            if n == 4 and (extra_n, blank_mode) in ((2, 'one'), (0, 'one')):
                continue
            for feat in ('mixed',) if n > 2 else ('mixed', 'ternary'):
                for full in _fulls(n, 1 if n > 1 else 1):
                    yield Obligation('C05.redundant[%s,%s,extra=%d,blanks=%s,full=%s]' % (shape_name(shape), feat, extra_n, blank_mode, full), 'h_redundant',
                                     dict(shape=shape, lb=1, lf=1, feat=feat, extra_n=extra_n, blank_mode=blank_mode, full=full), cost=n * (1 + extra_n))
    for n in (3, 4):
        for where in ('top', 'whole', 'left', 'right'):
            for lb in ((1,) if q else (1, 2)):
                for full in _fulls(n, 1):
                    yield Obligation('C05.ambiguous[n=%d,%s,lb=%d,full=%s]' % (n, where, lb, full), 'h_ambiguous', dict(n=n, lb=lb, where=where, full=full))


def ground_stage():
    """every shipped category string parses and prints back (concrete, exhaustive over the files)"""
    from depccg.cat import Category
    bad = []
    total = 0
    files = ground.shipped_category_strings()
    for name, strs in files.items():
        for t in strs:
            total += 1
            try:
                c = Category.parse(t)
                t2 = str(c)
                c2 = Category.parse(t2)
                if c2 != c or str(c2) != t2:
                    bad.append((name, t, 'round trip differs'))
                    continue
                # the file's text equals the canonical text up to redundant brackets and blanks
                strip = lambda s: ''.join(ch for ch in s if ch not in '()<> ')
                if strip(t2) != strip(t):
                    bad.append((name, t, 'canonical text %r not the same up to brackets' % t2))
            except Exception as e:
                bad.append((name, t, type(e).__name__))
    return dict(ground_files={k: len(v) for k, v in files.items()}, ground_strings=total, ground_bad=bad[:10]), bad


