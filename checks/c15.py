"""C15 — XML formats round-trip and give ccg2lambda a complete derivation."""
import copy
from lib.framework import Obligation
from lib import env, trees
from engines.pysym.explore import TOKEN
from engines.pysym.core import sym_str, truth, char_in, chars_of
from checks import c19

FUNCTIONS = ['depccg.printer.xml.xml_of/_process_tree', 'depccg.tools.reader.read_xml', 'depccg.printer.jigg_xml.to_jigg_xml/_ConvertToJiggXML/_cat_multi_valued',
             'depccg.tools.reader.read_jigg_xml', 'depccg.grammar.guess_combinator_by_triplet',
             'depccg.semantics.ccg2lambda.ccg2lambda_tools.build_ccg_tree/normalize_tokens', 'depccg.semantics.ccg2lambda.normalization.normalize_token (regex chain run by the engine\'s matcher)',
             'depccg.semantics.ccg2lambda.semantic_index.find_node_by_id']
BOUNDS = {
    'quick': 'derivations of 1-3 leaves built by the real rule functions over the English (C&C XML) and Japanese (Jigg XML) lexicons (every choice a fork); one token attribute at a time symbolic (1-2 code points, printable non-blank, XML-compatible); n-best lists of 1-2 trees per Jigg sentence; tokens for the normaliser up to 3 symbolic code points',
    'thorough': 'lexicons of 8-10 categories, attribute strings up to 3 code points, normaliser tokens up to 4',
}
OUTSIDE = 'lxml parsing/serialisation (element stand-in in symbolic runs; replays go through real XML text and the real lxml); assign_semantics (needs nltk)'
ASSUMPTIONS = ['"logic punctuation" = the characters the normaliser is written to remove: . , ( ) ! -', 'attribute values are XML-compatible characters (no control characters)']

XMLCHAR = TOKEN


def en_token(d, i, which, n):
    from depccg.types import Token
    kw = dict(word='w%d' % i, lemma='l%d' % i, pos='P%d' % i, entity='O', chunk='I')
    if i == 0 and which:
        kw[which] = d.string('attr', n, XMLCHAR)
    return Token(**kw)


def ja_token(d, i, which, n):
    from depccg.types import Token
    kw = dict(word='w%d' % i, surf='w%d' % i, base='b%d' % i, pos='名詞', pos1='一般', pos2='*', pos3='*', inflectionForm='*', inflectionType='*', reading='r')
    if i == 0 and which:
        kw[which] = d.string('attr', n, XMLCHAR)
        if which == 'word':
            kw['surf'] = kw['word']
    return Token(**kw)


def h_xml(d, n, nlex, which, alen, second=False):
    from depccg.tree import ScoredTree
    from depccg.printer.xml import xml_of
    from depccg.tools import reader
    from depccg.lang import set_global_language_to
    set_global_language_to('en')
    t = c19.gen_derivation(d, 'en', n, nlex, lambda dd, i: en_token(dd, i, which, alen))
    if t is None:
        return True
    t_second = t
    if second:      # the document's second sentence is another derivation (same lexicon, independent choices)
        from engines.pysym.explore import Prefixed
        t_second = c19.gen_derivation(Prefixed(d, 'second.'), 'en', n, nlex, lambda dd, i: en_token(d, i + 10, None, 0))
        if t_second is None:
            return True
    root = xml_of([[ScoredTree(t, -1.0)], [ScoredTree(t_second, -2.0)]])
    f = env.xml_file('c15.xml', root)
    try:
        res = list(reader.read_xml(f))
    except Exception as e:
        return ('xml.read-raises:' + type(e).__name__,)
    if len(res) != 2:
        return ('xml.count', len(res))
    for r, t in zip(res, [t, t_second]):
        t2 = r.tree
        why = trees.same_structure(t, t2, heads=True, labels=True)
        if why == 'label' and _label_of_another_rule(t, t2):
            return ('xml.label-of-another-rule-with-the-same-result', [(x.op_string, sym_str(x.cat)) for x in trees.walk(t) if not x.is_leaf], [(x.op_string, sym_str(x.cat)) for x in trees.walk(t2) if not x.is_leaf])
        if why:
            return ('xml.tree-differs.' + why, [(x.op_string, sym_str(x.cat)) for x in trees.walk(t) if not x.is_leaf], [(x.op_string, sym_str(x.cat)) for x in trees.walk(t2) if not x.is_leaf])
        for a, b in zip(t.leaves, t2.leaves):
            for k in ('word', 'lemma', 'pos', 'entity', 'chunk'):
                if b.token[k] != a.token[k]:
                    return ('xml.token-attribute-differs.' + k,)
        if len(r.tokens) != len(t.leaves):
            return ('xml.token-list-length',)
    return True


def _label_of_another_rule(t, t2):
    """every label difference is between two grammar results that derive the same category from the same children
    (the file format keeps the label, the reader re-derives it from the grammar and takes the first such rule)"""
    from depccg.grammar import en
    for a, b in zip(trees.walk(t), trees.walk(t2)):
        if a.is_leaf or a.op_string == b.op_string:
            continue
        if len(a.children) != 2:
            return False
        rs = en.apply_binary_rules(a.children[0].cat, a.children[1].cat)
        labs = [r.op_string for r in rs if r.cat == a.cat]
        if not (a.op_string in labs and b.op_string in labs):
            return False
    return True


def _ids(e):
    return e.get('id')


def h_jigg(d, n, nlex, which, alen, nbest, second=False):
    from depccg.tree import ScoredTree
    from depccg.printer.jigg_xml import to_jigg_xml
    from depccg.tools import reader
    from depccg.lang import set_global_language_to
    from depccg.semantics.ccg2lambda import ccg2lambda_tools as ct
    set_global_language_to('ja')
    toks = {}

    def tokfn(dd, i):        # the trees of one n-best list share the sentence's token objects
        if i not in toks:
            toks[i] = ja_token(d, i, which, alen)
        return toks[i]
    t = c19.gen_derivation(d, 'ja', n, nlex, tokfn)
    if t is None:
        return True
    t_second = t
    if second:
        from engines.pysym.explore import Prefixed
        t_second = c19.gen_derivation(Prefixed(d, 'second.'), 'ja', n, nlex, tokfn)      # another derivation over the same tokens
        if t_second is None:
            return True
    parsed = [ScoredTree(t, -1.0)] + ([ScoredTree(t_second, -3.0)] if nbest > 1 else [])
    expected = [t] + ([t_second] if nbest > 1 else []) + [t]
    root = to_jigg_xml([parsed, [ScoredTree(t, -2.0)]], use_symbol=True)
    sents = root[0][0].xpath('sentence')
    if len(sents) != 2:
        return ('jigg.sentence-count', len(sents))
    nleaf = len(t.leaves)
    for s_i, sent in enumerate(sents):
        toks = sent.xpath('.//token')
        if len(toks) != nleaf:
            return ('jigg.token-count',)
        tok_ids = [x.get('id') for x in toks]
        ccgs = sent.xpath('./ccg')
        if len(ccgs) != (nbest if s_i == 0 else 1):
            return ('jigg.ccg-count', len(ccgs))
        all_span_ids = []
        for c_i, ccg in enumerate(ccgs):
            t_exp = t_second if (s_i == 0 and c_i == 1) else t
            spans = ccg.xpath('./span')
            ids = [x.get('id') for x in spans]
            all_span_ids += ids
            byid = {i: x for i, x in zip(ids, spans)}
            roots = [x for x in spans if x.get('root') is not None]
            if len(roots) != 1 or ccg.get('root') != roots[0].get('id'):
                return ('jigg.not-exactly-one-root',)
            for x in spans:
                b, e = int(x.get('begin')), int(x.get('end'))
                if x.get('terminal') is not None:
                    if x.get('terminal') not in tok_ids:
                        return ('jigg.terminal-reference-does-not-resolve',)
                    if e != b + 1 or tok_ids.index(x.get('terminal')) != b:
                        return ('jigg.terminal-offsets',)
                else:
                    kids = x.get('child').split(' ')
                    if any(k not in byid for k in kids):
                        return ('jigg.child-reference-does-not-resolve',)
                    ks = [byid[k] for k in kids]
                    if int(ks[0].get('begin')) != b or int(ks[-1].get('end')) != e:
                        return ('jigg.children-do-not-tile-parent',)
                    if len(ks) == 2 and int(ks[0].get('end')) != int(ks[1].get('begin')):
                        return ('jigg.children-do-not-tile-parent',)
            rb, re_ = int(roots[0].get('begin')), int(roots[0].get('end'))
            if rb != 0 or re_ != nleaf:
                return ('jigg.root-does-not-cover-sentence',)
            # ccg2lambda's tree builder
            built = ct.build_ccg_tree(copy.deepcopy(ccg))

            def iso(node, el):
                if str(node.cat) != el.get('category') and sym_str(node.cat) != el.get('category'):
                    return 'category'
                if node.is_leaf:
                    return None if (len(el) == 0 and el.get('terminal') is not None) else 'leaf'
                if len(el) != len(node.children):
                    return 'arity'
                if el.get('rule') != node.op_symbol:
                    return 'rule'
                for c, ce in zip(node.children, el):
                    r = iso(c, ce)
                    if r:
                        return r
                return None
            why = iso(t_exp, built)
            if why:
                return ('ccg2lambda.built-tree-differs.' + why,)
        if len(set(all_span_ids)) != len(all_span_ids):
            return ('jigg.span-ids-not-unique-in-sentence',)
        # normalised token names
        tnode = copy.deepcopy(sent.find('.//tokens'))
        try:
            ct.normalize_tokens(tnode)
        except Exception as e:
            return ('ccg2lambda.normalize-raises:' + type(e).__name__,)
        for tk in tnode:
            for k in ('base', 'surf'):
                v = tk.get(k)
                if v is None:
                    continue
                bad = _bad_identifier(v)
                if bad:
                    return ('ccg2lambda.token-name-not-normalised.' + bad, k)
    f = env.xml_file('c15.jigg.xml', root)
    try:
        res = list(reader.read_jigg_xml(f))
    except Exception as e:
        return ('jigg.read-raises:' + type(e).__name__, sym_str(e))
    if len(res) != nbest + 1:
        return ('jigg.read-count', len(res))
    for r, t_exp in zip(res, expected):
        why = trees.same_structure(t_exp, r.tree, heads=False)
        if why:
            return ('jigg.tree-differs.' + why,)
        for a, b in zip(t_exp.leaves, r.tree.leaves):
            if b.token['word'] != a.token['word']:
                return ('jigg.word-differs',)
    return True


def _bad_identifier(v):
    if len(v) == 0 or v[0] != '_':
        return 'no-leading-underscore'
    for c in chars_of(v):
        if truth(char_in(c, [ord(x) for x in '.,()!-'])):
            return 'logic-punctuation-left'
    return None


def h_normalize(d, n):
    from depccg.semantics.ccg2lambda.normalization import normalize_token
    tok = d.string('tok', n, TOKEN)
    try:
        v = normalize_token(tok)
    except Exception as e:
        return ('normalize.raises:' + type(e).__name__,)
    bad = _bad_identifier(v)
    if bad:
        return ('normalize.' + bad, sym_str(v))
    return True


def obligations(tier):
    q = tier == 'quick'
    for n in (1, 2, 3):
        nlex = (6 if n < 3 else 4) if q else 8
        for which, alen in ((None, 0), ('word', 1), ('lemma', 2), ('pos', 1), ('entity', 1), ('chunk', 1)):
            if n == 3 and which not in (None, 'word'):
                continue
            yield Obligation('C15.xml[n=%d,lexicon=%d,%s=%d]' % (n, nlex, which, alen), 'h_xml', dict(n=n, nlex=nlex, which=which, alen=alen), cost=n * n * 4)
        for which, alen in ((None, 0), ('word', 1), ('base', 1), ('base', 2), ('word', 2)):
            for nbest in (1, 2):
                if (n == 3 and (which not in (None,) or nbest == 2)) or (nbest == 2 and which == 'base' and alen == 2):
                    continue
                yield Obligation('C15.jigg[n=%d,lexicon=%d,%s=%d,nbest=%d]' % (n, min(nlex, 8), which, alen, nbest), 'h_jigg',
                                 dict(n=n, nlex=min(nlex, 8), which=which, alen=alen, nbest=nbest), cost=n * n * 6)
        if n <= 2:      # a 2-best list whose second tree is another derivation over the same tokens (other lexical categories, other rules)
            nl2 = (6 if n == 1 else 4) if q else (8 if n == 1 else 5)
            yield Obligation('C15.jigg[n=%d,lexicon=%d,nbest=2,second tree differs]' % (n, nl2), 'h_jigg',
                             dict(n=n, nlex=nl2, which=None, alen=0, nbest=2, second=True), cost=n * n * 30)
    yield Obligation('C15.xml[n=2,lexicon of the listed special rules]', 'h_xml', dict(n=2, nlex='special', which=None, alen=0), cost=10)
    yield Obligation('C15.xml[n=2,lexicon , NP conj ; (one pair of children, several results),second sentence differs]', 'h_xml', dict(n=2, nlex=[',', 'NP', 'conj', ';'], which=None, alen=0, second=True), cost=60)
    yield Obligation('C15.xml[n=2,lexicon=4,second sentence differs]', 'h_xml', dict(n=2, nlex=4, which=None, alen=0, second=True), cost=60)
    for n in ((1, 2, 3) if q else (1, 2, 3, 4)):
        yield Obligation('C15.normalize[len=%d]' % n, 'h_normalize', dict(n=n), cost=n * 3)


def normalizer_encoding():
    """Engine Z: normalize_token read from its AST as a chain of per-character rewrites; z3 decides, for a token character c of any
    code point, whether some forbidden character survives.  The encoding is valid when every rule is a single-character (or
    whole-token anchored) literal rule whose replacement contains no character matched by a later rule - checked here too."""
    import ast
    import os
    import re as _re
    import z3
    import re._parser as sp
    import re._constants as sc
    from engines.pysym import hook
    src = open(os.path.join(hook.REPO, 'depccg', 'semantics', 'ccg2lambda', 'normalization.py'), encoding='utf-8').read()
    fn = [n for n in ast.walk(ast.parse(src)) if isinstance(n, ast.FunctionDef) and n.name == 'normalize_token']
    if not fn:
        return dict(applicable=False, reason='normalize_token not found'), []
    rules, prefix_guard = [], False
    for st in ast.walk(fn[0]):
        if isinstance(st, ast.Call) and isinstance(st.func, ast.Attribute) and st.func.attr == 'sub' and len(st.args) == 3 \
                and all(isinstance(a, ast.Constant) for a in st.args[:2]):
            rules.append((st.lineno, st.args[0].value, st.args[1].value))
        if isinstance(st, ast.If) and 'startswith' in ast.dump(st.test) and "'_'" in ast.dump(st.test).replace('"', "'"):
            prefix_guard = True
    rules.sort()
    per_char = []      # (code point, replacement) in order; anchored whole-token rules are kept apart
    for _, pat, rep in rules:
        ops = list(sp.parse(pat))
        kinds = [o for o, _ in ops]
        if kinds == [sc.LITERAL]:
            per_char.append((ops[0][1], rep))
        elif kinds == [sc.AT, sc.LITERAL, sc.AT]:
            continue       # whole-token rule: only rewrites the one-character token; the per-character rule for that character still decides
        else:
            return dict(applicable=False, reason='rule %r is not a single-character literal rule' % pat), []
    forbidden = [ord(ch) for ch in '.,()!-']
    handled = [c for c, _ in per_char]
    # replacements must be inert for later rules and free of forbidden characters
    for i, (c, rep) in enumerate(per_char):
        for c2, _ in per_char[i + 1:]:
            if chr(c2) in rep:
                return dict(applicable=False, reason='replacement %r is rewritten by a later rule' % rep), []
    bad = []
    for c, rep in per_char:
        for ch in rep:
            if ord(ch) in forbidden:
                bad.append(('normalize.z3.replacement-contains-logic-punctuation', dict(char=chr(c), replacement=rep)))
    v = z3.Int('c')
    s = z3.Solver()
    s.add(v >= 0, v <= 0x10FFFF, z3.Or(*[v == f for f in forbidden]), *[v != h for h in handled])
    r = s.check()
    info = dict(applicable=True, rules=len(rules), per_character_rules=len(per_char), query='exists c: forbidden(c) and no rule rewrites c', result=str(r))
    if r == z3.sat:
        c = s.model().eval(v, True).as_long()
        bad.append(('normalize.z3.logic-punctuation-survives', dict(token='a' + chr(c))))
    if not prefix_guard:
        bad.append(('normalize.z3.no-underscore-prefix-step', dict(token='a')))
    # replay every counterexample on the real function
    real = []
    if bad:
        from depccg.semantics.ccg2lambda.normalization import normalize_token
        for kind, m in bad:
            tok = m.get('token') or m.get('char')
            out = normalize_token(tok)
            if (not out.startswith('_')) or any(ch in out for ch in '.,()!-'):
                real.append((kind, dict(token=tok, output=out)))
    return info, real


def ground_stage():
    info, bad = normalizer_encoding()
    return dict(normalizer_z3=info), bad
