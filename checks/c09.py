"""C09 — the reported score is the model score of the returned tree."""
from lib import search as S
from checks import c01

FUNCTIONS = c01.FUNCTIONS + ['depccg/parsing.pyx: retrieve_tree, run (mechanically translated, executed on the native build) — the score is recomputed from the Tree objects the Python layer delivers, with the head flags it attached']
BOUNDS = {
    'quick': 'as C01 quick plus n-best 2-3 on n = 2 (2 tags per word) and a non-head-uniform grammar (G4); symbolic part: reported term == term recomputed from the back-pointer tree on every path; native part: one solver-chosen witness per path through depccg.parsing.run, score recomputed from the delivered tree (sum of leaf tag scores, dependency of every non-head child by the delivered head flags, root attachment, minus penalty per unary node)',
    'thorough': 'as C01 thorough plus n-best on n = 3',
}
OUTSIDE = c01.OUTSIDE
ASSUMPTIONS = c01.ASSUMPTIONS + ['the native recomputation is exact: witnesses are integer matrices below 2^22']


def obligations(tier):
    q = tier == 'quick'
    obs = []
    g4 = S.G4()
    obs.append(S.SOb('C09.score[G4,n=2,tags=2,nbest=1]', g4, 2, pruning=2, penalty='sym'))
    obs.append(S.SOb('C09.score[G4,n=2,tags=2,nbest=%d]' % (2 if q else 3), g4, 2, ([(1, 0)] if q else ()), pruning=2, penalty='sym', nbest=(2 if q else 3)))
    for g in (S.G1(True), S.G1(False)):
        obs.append(S.SOb('C09.score[%s,n=3,tags=1]' % g['name'], g, 3, S.one_tag(3, 3), pruning=1, penalty='0'))
    obs.append(S.SOb('C09.score[G5r,n=2,tags=2,nbest=2]', S.G5(False), 2, pruning=2, penalty='0', nbest=2))
    obs.append(S.SOb('C09.score[G3c,n=2,tags=1,penalty=sym]', S.G3(True), 2, S.one_tag(2, 2), pruning=1, penalty='sym'))
    obs.append(S.SOb('C09.score[G6,n=1,tags=4,penalty=sym,nbest=3]', S.G6(), 1, ([(0, 3)] if q else ()), pruning=4, penalty='sym', nbest=3))
    g = S.real_grammar('ja')
    obs.append(S.SOb('C09.score[G_ja,n=3,tags=1:[0,1,2]]', g, 3, S.one_tag(3, g['T'], [0, 1, 2]), pruning=1, penalty='sym'))
    g = S.real_grammar('en')
    obs.append(S.SOb('C09.score[G_en,n=3,tags=1:[0,2,0]]', g, 3, S.one_tag(3, g['T'], [0, 2, 0]), pruning=1, penalty='sym'))
    obs.append(S.SOb('C09.score[G7,n=3,tags=1,penalty=sym]', S.G7(False), 3, S.one_tag(3, 3), pruning=1, penalty='sym'))
    if not q:
        obs.append(S.SOb('C09.score[G4,n=3,tags=1:[0,1,0],nbest=3]', g4, 3, S.one_tag(3, 2, [0, 1, 0]), pruning=1, penalty='sym', nbest=3, max_seconds=450))
        obs.append(S.SOb('C09.score[G3c,n=2,tags=2,penalty=sym]', S.G3(True), 2, pruning=2, penalty='sym', max_seconds=450))
    return obs


def main(tier):
    return S.run_search_check('C09', tier, obligations(tier), ('C09.',), FUNCTIONS, BOUNDS[tier], OUTSIDE, ASSUMPTIONS,
                              records_for_validation=True, record_every=(3 if tier == 'quick' else 5))
