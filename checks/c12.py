"""C12 — rule labels and head directions on trees are those the grammar assigned (parser side + reader side)."""
from lib import search as S
from checks import c01

FUNCTIONS = c01.FUNCTIONS + ['depccg/parsing.pyx: retrieve_tree, scaffold, run (translated, native): labels/symbols/head flags of every node of the delivered Tree',
                            'depccg/grammar/__init__.py: guess_combinator_by_triplet', 'depccg/tools/reader.py: read_auto, read_xml, read_jigg_xml, read_ptb']
BOUNDS = {
    'quick': 'parser side: every path for G4 (several results per pair with different labels, a duplicate category, both head directions; n = 2 with 2 tags, n-best 1-3), G2/G5r (right-headed), real ja table (head right) n = 3, real en table n = 3; one witness per path through the real finalizer.  Reader side: see evidence (reader obligations)',
    'thorough': 'adds G4 n = 3 n-best 3',
}
OUTSIDE = c01.OUTSIDE
ASSUMPTIONS = c01.ASSUMPTIONS


def obligations(tier):
    q = tier == 'quick'
    obs = []
    g4 = S.G4()
    for k in ((1, 2) if q else (1, 2, 3)):
        obs.append(S.SOb('C12.labels[G4,n=2,tags=2,nbest=%d]' % k, g4, 2, pruning=2, penalty='sym', nbest=k))
    obs.append(S.SOb('C12.labels[G2,n=3,tags=1]', S.G1(False), 3, S.one_tag(3, 3), pruning=1, penalty='0'))
    obs.append(S.SOb('C12.labels[G5r,n=2,tags=2,nbest=2]', S.G5(False), 2, pruning=2, penalty='0', nbest=2))
    obs.append(S.SOb('C12.labels[G3c,n=2,tags=1]', S.G3(True), 2, S.one_tag(2, 2), pruning=1, penalty='sym'))
    for lang, tags in (('ja', [0, 1, 2]), ('ja', [0, 1, 3]), ('en', [0, 2, 0])):
        g = S.real_grammar(lang)
        obs.append(S.SOb('C12.labels[%s,n=%d,tags=1:%s]' % (g['name'], len(tags), tags), g, len(tags), S.one_tag(len(tags), g['T'], tags), pruning=1, penalty='sym'))
    if not q:
        obs.append(S.SOb('C12.labels[G4,n=3,tags=1:[0,1,0],nbest=3]', g4, 3, S.one_tag(3, 2, [0, 1, 0]), pruning=1, penalty='sym', nbest=3, max_seconds=900))
    return obs


def main(tier):
    return S.run_search_check('C12', tier, obligations(tier), ('C12.',), FUNCTIONS, BOUNDS[tier], OUTSIDE, ASSUMPTIONS,
                              records_for_validation=True, record_every=1)
