"""C12 — rule labels and head directions on trees are those the grammar assigned (parser side + reader side)."""
from lib import search as S
from checks import c01

FUNCTIONS = c01.FUNCTIONS + ['depccg/parsing.pyx: retrieve_tree, scaffold, run (translated, native): labels/symbols/head flags of every node of the delivered Tree',
                            'depccg/grammar/__init__.py: guess_combinator_by_triplet', 'depccg/tools/reader.py: read_auto, read_xml, read_jigg_xml, read_ptb']
BOUNDS = {
    'quick': 'reader side: grammar-licensed derivations of 2-3 leaves (forks over lexicon and rule results) and the same with an underivable root category, printed as auto / ptb / xml / jigg_xml and read back with the language set; parser side: every path for G4 (several results per pair with different labels, a duplicate category, both head directions; n = 2 with 2 tags, n-best 1-3), G2/G5r (right-headed), real ja table (head right) n = 3, real en table n = 3; one witness per path through the real finalizer.  ',
    'thorough': 'adds G4 n = 3 n-best 3',
}
OUTSIDE = c01.OUTSIDE
ASSUMPTIONS = c01.ASSUMPTIONS


def obligations(tier):
    q = tier == 'quick'
    obs = []
    g4 = S.G4()
    for k in ((1, 2) if q else (1, 2, 3)):
        obs.append(S.SOb('C12.labels[G4,n=2,tags=2,nbest=%d]' % k, g4, 2, ([(1, 0)] if (q and k > 1) else ()), pruning=2, penalty='sym', nbest=k))
    obs.append(S.SOb('C12.labels[G2,n=3,tags=1]', S.G1(False), 3, S.one_tag(3, 3), pruning=1, penalty='0'))
    obs.append(S.SOb('C12.labels[G5r,n=2,tags=2,nbest=2]', S.G5(False), 2, pruning=2, penalty='0', nbest=2))
    obs.append(S.SOb('C12.labels[G3c,n=2,tags=1]', S.G3(True), 2, S.one_tag(2, 2), pruning=1, penalty='sym'))
    for lang, tags in (('ja', [0, 1, 2]), ('ja', [0, 1, 3]), ('en', [0, 2, 0])):
        g = S.real_grammar(lang)
        obs.append(S.SOb('C12.labels[%s,n=%d,tags=1:%s]' % (g['name'], len(tags), tags), g, len(tags), S.one_tag(len(tags), g['T'], tags), pruning=1, penalty='sym'))
    if not q:
        obs.append(S.SOb('C12.labels[G4,n=3,tags=1:[0,1,0],nbest=3]', g4, 3, S.one_tag(3, 2, [0, 1, 0]), pruning=1, penalty='sym', nbest=3, max_seconds=450))
    return obs


# ------------------------------------------------------------------------------------------- reader side (Engine P)

def _expect(lang, node):
    """labels (op_string, op_symbol, head_is_left) of the grammar results that derive node.cat from its children"""
    from depccg.grammar import en, ja
    g = en if lang == 'en' else ja
    rs = g.apply_binary_rules(node.children[0].cat, node.children[1].cat)
    return [(r.op_string, r.op_symbol, r.head_is_left) for r in rs if r.cat == node.cat]


def _check_read(lang, t2, has_head_field, where):
    from lib import trees
    for nd in trees.walk(t2):
        if nd.is_leaf or len(nd.children) != 2:
            continue
        exp = _expect(lang, nd)
        if exp:
            ok = any(nd.op_string == a and nd.op_symbol == b and (has_head_field or bool(nd.head_is_left) == bool(h)) for a, b, h in exp)
            if not ok:
                if nd.op_string == 'unk':
                    return ('reader.%s.derivable-node-labelled-unknown' % where, str(nd.cat))
                return ('reader.%s.label-or-head-not-the-grammar-rule' % where, nd.op_string, exp)
        elif nd.op_string != 'unk':
            return ('reader.%s.underivable-node-not-unknown' % where, nd.op_string)
    return True


def h_reader(d, lang, n, nlex, fmt, corrupt):
    """print a grammar-licensed derivation (optionally with one node category replaced by one the grammar does not derive) and read it back"""
    from lib import env, trees
    from checks import c19
    from depccg.cat import Category
    from depccg.tree import ScoredTree, Tree
    from depccg.tools import reader
    from depccg.lang import set_global_language_to
    set_global_language_to(lang)
    env.install_open(reader)
    t = c19.gen_derivation(d, lang, n, nlex)
    if t is None:
        return True
    if corrupt:
        # replace the root category by an atom the grammar does not derive from these children
        if t.is_leaf or len(t.children) != 2:
            return True
        odd = Category.parse('QQ' if lang == 'en' else 'QQ[case=nc,mod=nm,fin=f]')
        t = Tree.make_binary(odd, t.children[0], t.children[1], 'unk', '<unk>', t.head_is_left)
    try:
        if fmt == 'auto':
            from depccg.printer.auto import auto_of
            f = env.write_file('c12.auto', ['ID=1', auto_of(t)])
            t2 = list(reader.read_auto(f))[0].tree
        elif fmt == 'ptb':
            from depccg.printer.ptb import ptb_of
            f = env.write_file('c12.ptb', [ptb_of(t)])
            t2 = list(reader.read_ptb(f))[0].tree
        elif fmt == 'xml':
            from depccg.printer.xml import xml_of
            f = env.xml_file('c12.xml', xml_of([[ScoredTree(t, -1.0)]]))
            t2 = list(reader.read_xml(f))[0].tree
        else:
            from depccg.printer.jigg_xml import to_jigg_xml
            f = env.xml_file('c12.jigg.xml', to_jigg_xml([[ScoredTree(t, -1.0)]], use_symbol=(lang == 'ja')))
            t2 = list(reader.read_jigg_xml(f))[0].tree
    except Exception:
        return True       # whether the text reads back at all is C08/C15/C20's subject (e.g. PTB bracket tokens)
    if trees.same_structure(t, t2, heads=False) is not None:
        return True       # shape/category read-back is C08/C15/C20's subject
    return _check_read(lang, t2, fmt == 'auto', fmt)


def h_reader_two_languages(d, fmt, first):
    """one process reads the same feature-less tree under both grammars (the active language is switched in between): every
    read is labelled by the grammar that is active when it is read"""
    from lib import env, trees
    from depccg.cat import Category
    from depccg.tree import Tree, ScoredTree
    from depccg.types import Token
    from depccg.tools import reader
    from depccg.lang import set_global_language_to
    env.install_open(reader)
    w = d.string('word', 1, TOKEN_AL)
    l = Tree.make_terminal(Token(word=w, lemma='l', pos='P', entity='O', chunk='I'), Category.parse('S/S'))
    r = Tree.make_terminal(Token(word='b', lemma='l', pos='P', entity='O', chunk='I'), Category.parse('S'))
    t = Tree.make_binary(Category.parse('S'), l, r, 'fa', '>', True)
    out = []
    for lang in ([first, 'ja' if first == 'en' else 'en', first]):
        set_global_language_to(lang)
        try:
            if fmt == 'auto':
                from depccg.printer.auto import auto_of
                f = env.write_file('c12.auto', ['ID=1', auto_of(t)])
                t2 = list(reader.read_auto(f))[0].tree
            elif fmt == 'ptb':
                from depccg.printer.ptb import ptb_of
                f = env.write_file('c12.ptb', [ptb_of(t)])
                t2 = list(reader.read_ptb(f))[0].tree
            else:
                from depccg.printer.xml import xml_of
                f = env.xml_file('c12.xml', xml_of([[ScoredTree(t, -1.0)]]))
                t2 = list(reader.read_xml(f))[0].tree
        except Exception:
            set_global_language_to('en')
            return True
        res = _check_read(lang, t2, fmt == 'auto', fmt + '.two-languages.' + lang)
        if res is not True:
            set_global_language_to('en')
            return res
    set_global_language_to('en')
    return True


from engines.pysym.explore import TOKEN as TOKEN_AL


def p_obligations(tier):
    from lib.framework import Obligation as _Ob
    for fmt in ('auto', 'ptb', 'xml'):
        for first in ('en', 'ja'):
            yield _Ob('C12.reader-two-languages[%s,first=%s]' % (fmt, first), 'h_reader_two_languages', dict(fmt=fmt, first=first), cost=3)
    from lib.framework import Obligation
    q = tier == 'quick'
    for lang, fmts in (('en', ('auto', 'ptb', 'xml', 'jigg_xml')), ('ja', ('auto', 'ptb', 'jigg_xml'))):
        for fmt in fmts:
            if lang == 'en' and fmt == 'jigg_xml':
                continue          # Jigg XML spells English features as [f=true]: categories do not read back (outside the statement)
            for n in (2, 3):
                nlex = (6 if n == 2 else 4) if q else 8
                if lang == 'en' and n == 2:
                    yield Obligation('C12.reader[en,%s,n=2,lexicon of the listed special rules]' % fmt, 'h_reader', dict(lang='en', n=2, nlex='special', fmt=fmt, corrupt=False), cost=8)
                for corrupt in (False, True):
                    if corrupt and n == 3:
                        continue
                    yield Obligation('C12.reader[%s,%s,n=%d,lexicon=%d%s]' % (lang, fmt, n, nlex, ',underivable root' if corrupt else ''), 'h_reader',
                                     dict(lang=lang, n=n, nlex=nlex, fmt=fmt, corrupt=corrupt), cost=n * n)


class _PMod:
    """the reader-side obligations as a framework check module"""
    __name__ = __name__
    FUNCTIONS, BOUNDS, OUTSIDE, ASSUMPTIONS = FUNCTIONS, BOUNDS, OUTSIDE, ASSUMPTIONS
    obligations = staticmethod(p_obligations)


def main(tier):
    import json
    import os
    import sys
    from lib import framework
    rc1 = S.run_search_check('C12', tier, obligations(tier), ('C12.',), FUNCTIONS, BOUNDS[tier], OUTSIDE, ASSUMPTIONS,
                             records_for_validation=True, record_every=1)
    EVD = os.environ.get('VERIF_EVIDENCE_DIR') or os.path.join(framework.VERIF, 'evidence')
    parser_side = json.load(open(os.path.join(EVD, 'C12.json')))
    mod = sys.modules[__name__]
    mod.obligations_search = obligations
    saved = mod.obligations
    mod.obligations = p_obligations
    try:
        rc2 = framework.run_check('C12', tier, mod, extra_cov=dict(parser_side=parser_side['coverage'], parser_side_wall_s=parser_side['wall_s'],
                                                                   parser_side_violations=parser_side.get('violations', 0)))
    finally:
        mod.obligations = saved
    # merged evidence: states/transitions of both halves
    p = os.path.join(EVD, 'C12.json')
    ev = json.load(open(p))
    ps = parser_side['coverage']
    for k in ('states', 'transitions', 'traces_validated_against_impl', 'evaluations', 'distinct_nontrivial', 'obligations', 'discharged', 'solver_queries'):
        ev['coverage'][k] = ev['coverage'].get(k, 0) + ps.get(k, 0)
    ev['coverage']['exhaustive'] = bool(ev['coverage'].get('exhaustive')) and bool(ps.get('exhaustive'))
    ev['violations'] = ev.get('violations', 0) + parser_side.get('violations', 0)
    ev['wall_s'] = round(ev['wall_s'] + parser_side['wall_s'], 2)
    json.dump(ev, open(p, 'w'), indent=1)
    return max(rc1, rc2) if 1 not in (rc1, rc2) else 1
