"""C17 — the category dictionary restricts exactly the listed words."""
import os
import sys
import types
from lib.framework import Obligation
from lib import env, ground
from engines.pysym.explore import TOKEN
from engines.pysym.core import sym_str

FUNCTIONS = ['depccg.parsing.apply_category_filters', 'depccg.parsing._binarize', 'depccg.parsing._type_check', 'depccg.types.Token/ScoringResult',
             'shipped data: depccg/models/cat_dict.en, targets.{en,en_rebank,ja}, seen_rules.*, unary_rules.* (evaluated exhaustively)']
BOUNDS = {
    'quick': 'documents of 1-2 sentences with <= 3 tokens, 4 categories, dictionaries with 1-2 words (one key symbolic) whose category lists are symbolic subsets; token words symbolic (1-2 code points, equal or not to the keys); scores opaque distinct cell values; single-sentence and batch call forms; ground part: every entry of the shipped files',
    'thorough': 'documents with 2 sentences x 3 tokens, 2 symbolic dictionary keys',
}
OUTSIDE = 'numpy itself (a shape/masked-assignment stand-in in symbolic runs; replays use real numpy float32 arrays); larger documents'
ASSUMPTIONS = ['reading: membership of dictionary categories in the inventory is required for every shipped configuration (config*.jsonnet) that configures a dictionary, against the inventory that configuration imports (on the current tree: config_en pairs cat_dict.en with targets.en, config_ja has an empty dictionary, config_rebank none)',
               'numpy arrays are replaced by a 2-D stand-in supporting shape and arr[i, boolean_mask] = v in symbolic runs']

SYMBOLIC = env.SYMBOLIC
CATS = ['NP', 'N', 'S[dcl]\\NP', '(S[dcl]\\NP)/NP']
NEG = -10e+32


def parsing_module():
    if 'depccg._parsing' not in sys.modules:
        m = types.ModuleType('depccg._parsing')
        m.run = lambda *a, **k: (_ for _ in ()).throw(RuntimeError('native parser not available in this harness'))
        sys.modules['depccg._parsing'] = m
        import depccg
        depccg._parsing = m
    import depccg.parsing as P
    if SYMBOLIC:
        from engines.pysym import stubs
        P.__dict__['numpy'] = stubs.NUMPY
    return P


def make_scores(ntok, ncat, base, layout='f32'):
    """layout: 'f32' C-contiguous float32 (what the taggers deliver), 'f64' float64 (numpy's default dtype), 'f32view' a strided float32
    view into a larger buffer"""
    if SYMBOLIC:
        from engines.pysym import stubs
        kw = dict(dtype='float64' if layout == 'f64' else 'float32', c_contiguous=(layout != 'f32view'))
        return (stubs.Arr2([[('cell', base, i, c) for c in range(ncat)] for i in range(ntok)], **kw),
                stubs.Arr2([[('dep', base, i, h) for h in range(ntok + 1)] for i in range(ntok)], **kw))
    import numpy
    dt = numpy.float64 if layout == 'f64' else numpy.float32
    k = 3.0 if layout == 'f64' else 1.0          # float64 cells that float32 cannot represent
    tagv = [[-(1 + base * 100 + i * 10 + c) / k for c in range(ncat)] for i in range(ntok)]
    depv = [[-(500 + base * 100 + i * 10 + h) / k for h in range(ntok + 1)] for i in range(ntok)]
    if layout == 'f32view':
        bt, bd = numpy.zeros((ntok, 2 * ncat), dtype=dt), numpy.zeros((ntok, 2 * (ntok + 1)), dtype=dt)
        tag, dep = bt[:, ::2], bd[:, ::2]
        tag[:, :], dep[:, :] = tagv, depv
        return tag, dep
    return numpy.array(tagv, dtype=dt), numpy.array(depv, dtype=dt)


def neg_value(a=None):
    if SYMBOLIC:
        return NEG
    import numpy
    if a is not None and a.dtype == numpy.float64:
        return NEG
    return float(numpy.float32(NEG))     # float32 arrays: the large negative value as stored


def cell(a, i, c):
    if SYMBOLIC:
        return a.rows[i][c]
    return float(a[i, c])


def h_filter(d, lens, nwords, batch_form, layout='f32'):
    from depccg.cat import Category
    from depccg.types import Token, ScoringResult
    P = parsing_module()
    cats = [Category.parse(c) for c in CATS]
    # dictionary: word -> symbolic subset of the categories
    keys = [d.string('key0', 1, TOKEN)] + (['the'] if nwords > 1 else [])
    if nwords > 1 and keys[0] == keys[1]:
        return True          # a dict cannot hold the same key twice
    cdict = {}
    listed = {}
    for k, key in enumerate(keys):
        sub = [c for j, c in enumerate(cats) if d.boolean('in%d_%d' % (k, j))]
        cdict[key] = sub
        listed[k] = [j for j, c in enumerate(cats) if c in sub]
    doc, srs, olds = [], [], []
    for s, n in enumerate(lens):
        toks = []
        for i in range(n):
            if s == 0 and i == 0:
                w = d.string('word', 1, TOKEN)
            elif i == 1:
                w = 'the'
            else:
                w = 'w%d' % i
            toks.append(Token(word=w, lemma='l', pos='P', entity='O', chunk='I'))
        tag, dep = make_scores(n, len(cats), s, layout)
        doc.append(toks)
        srs.append(ScoringResult(tag, dep))
        olds.append(([[cell(tag, i, c) for c in range(len(cats))] for i in range(n)], [[cell(dep, i, h) for h in range(n + 1)] for i in range(n)]))
    order = [[id(t) for t in toks] for toks in doc]
    try:
        if batch_form:
            rdoc, rsr = P.apply_category_filters(doc, srs, cats, cdict)
        else:
            rdoc, rsr = P.apply_category_filters(doc[0], srs[0], cats, cdict)
    except Exception as e:
        return ('raises:' + type(e).__name__, sym_str(e))
    if not batch_form:
        doc, srs, olds, order = doc[:1], srs[:1], olds[:1], order[:1]
    if [[id(t) for t in toks] for toks in rdoc] != order:
        return ('token-order-changed',)
    for s, toks in enumerate(doc):
        tag, dep = srs[s]
        rt, rd = rsr[s]
        if rt is not tag and not batch_form:
            pass
        for i, t in enumerate(toks):
            which = None
            for k, key in enumerate(keys):
                if t['word'] == key:
                    which = k
            for c in range(len(cats)):
                new, old = cell(rt, i, c), olds[s][0][i][c]
                if which is not None and c not in listed[which]:
                    if new != neg_value(rt):
                        return ('unlisted-category-not-masked', s, i, c)
                elif new != old:
                    return ('score-changed-where-it-must-not', s, i, c, which is not None)
            for h in range(len(toks) + 1):
                if cell(rd, i, h) != olds[s][1][i][h]:
                    return ('dependency-score-changed', s, i, h)
    return True


def h_history(d, mode):
    """two calls in one process: the second call is judged on its own inputs (a dictionary object mutated between the calls, or the
    same dictionary with another category list of the same length)"""
    from depccg.cat import Category
    from depccg.types import Token, ScoringResult
    P = parsing_module()
    cats = [Category.parse(c) for c in CATS]
    w = d.string('word', 1, TOKEN)
    cdict = {'the': [cats[0]], 'a': [cats[1], cats[2]]}

    def call(categories, cd, base):
        toks = [Token(word=x, lemma='l', pos='P', entity='O', chunk='I') for x in (w, 'the', 'cat')]
        tag, dep = make_scores(3, len(categories), base)
        old = [[cell(tag, i, c) for c in range(len(categories))] for i in range(3)]
        P.apply_category_filters([toks], [ScoringResult(tag, dep)], categories, cd)
        for i, t in enumerate(toks):
            listed = None
            for key, lst in cd.items():
                if t['word'] == key:
                    listed = [j for j, c in enumerate(categories) if c in lst]
            for c in range(len(categories)):
                new = cell(tag, i, c)
                if listed is not None and c not in listed:
                    if new != neg_value():
                        return ('second-call.unlisted-category-not-masked' if base else 'unlisted-category-not-masked', i, c)
                elif new != old[i][c]:
                    return ('second-call.score-changed-where-it-must-not' if base else 'score-changed-where-it-must-not', i, c)
        return None
    try:
        r = call(cats, cdict, 0)
        if r:
            return r
        if mode == 'mutate':
            del cdict['the']
            cdict['cat'] = [cats[3]]
            cdict['a'] = [cats[0]]
            r = call(cats, cdict, 1)
        elif mode == 'reorder':
            r = call(list(reversed(cats)), cdict, 1)
        else:
            r = call(cats, {'cat': [cats[2]], 'a': [cats[3]]}, 1)
    except Exception as e:
        return ('raises:' + type(e).__name__, sym_str(e))
    return r or True


def h_shape(d, ntok, tag_rows, tag_cols, dep_cols, ncat):
    """inputs whose shapes do not fit are rejected (RuntimeError) - by apply_category_filters' own type check"""
    from depccg.cat import Category
    from depccg.types import Token, ScoringResult
    P = parsing_module()
    cats = [Category.parse(c) for c in (CATS + ['PP', 'S'])[:ncat]]
    toks = [Token(word='w%d' % i, lemma='l', pos='P', entity='O', chunk='I') for i in range(ntok)]
    if SYMBOLIC:
        from engines.pysym import stubs
        tag = stubs.Arr2([[0] * tag_cols for _ in range(tag_rows)])
        dep = stubs.Arr2([[0] * dep_cols for _ in range(ntok)])
    else:
        import numpy
        tag = numpy.zeros((tag_rows, tag_cols), dtype=numpy.float32)
        dep = numpy.zeros((ntok, dep_cols), dtype=numpy.float32)
    fits = tag_rows == ntok and tag_cols == ncat and dep_cols == ntok + 1
    try:
        P.apply_category_filters([toks], [ScoringResult(tag, dep)], cats, {})
    except RuntimeError:
        return True if not fits else ('fitting-shapes-rejected',)
    except Exception as e:
        return ('shape-check-raises:' + type(e).__name__,)
    return True if fits else ('misfitting-shapes-accepted', ntok, tag_rows, tag_cols, dep_cols, ncat)


def obligations(tier):
    q = tier == 'quick'
    for lens in ([(1,), (2,), (3,), (2, 1)] if q else [(1,), (2,), (3,), (2, 1), (3, 3), (2, 3)]):
        for nwords in (1, 2):
            for batch_form in (True, False):
                if not batch_form and len(lens) > 1:
                    continue
                yield Obligation('C17.filter[lens=%s,words=%d,%s]' % (list(lens), nwords, 'batch' if batch_form else 'single'), 'h_filter',
                                 dict(lens=list(lens), nwords=nwords, batch_form=batch_form), cost=sum(lens) * nwords)
    for layout in ('f64', 'f32view'):
        for lens, batch_form in (((2,), True), ((1,), False), ((2, 1), True)):
            yield Obligation('C17.filter[lens=%s,words=1,%s,%s scores]' % (list(lens), 'batch' if batch_form else 'single', layout), 'h_filter',
                             dict(lens=list(lens), nwords=1, batch_form=batch_form, layout=layout), cost=4)
    for mode in ('mutate', 'reorder', 'other-dict'):
        yield Obligation('C17.history[%s]' % mode, 'h_history', dict(mode=mode), cost=5)
    for ntok in (1, 2):
        for tag_rows in (ntok, ntok + 1):
            for tag_cols in (3, 4):
                for dep_cols in (ntok, ntok + 1, ntok + 2):
                    for ncat in (4, 5):
                        yield Obligation('C17.shape[tok=%d,tag=%dx%d,dep=%dx%d,cats=%d]' % (ntok, tag_rows, tag_cols, ntok, dep_cols, ncat), 'h_shape',
                                         dict(ntok=ntok, tag_rows=tag_rows, tag_cols=tag_cols, dep_cols=dep_cols, ncat=ncat), cost=1)


def ground_stage():
    from depccg.cat import Category
    bad = []
    files = ground.shipped_category_strings()
    total = 0
    parsed = {}
    for name, strs in files.items():
        if name.startswith('tests/'):
            continue
        for t in strs:
            total += 1
            try:
                c = Category.parse(t)
                if Category.parse(str(c)) != c:
                    bad.append((name, t, 'does not print back to an equal category'))
                parsed.setdefault(name, set()).add(c)
            except Exception as e:
                bad.append((name, t, 'not well formed: ' + type(e).__name__))
    missing = []
    if 'cat_dict.en' in parsed and 'targets.en' in parsed:
        missing = sorted(str(c) for c in parsed['cat_dict.en'] - parsed['targets.en'])
        for m in missing:
            bad.append(('cat_dict.en', m, 'dictionary category is not in targets.en'))
    # the dictionary as apply_category_filters consumes it: every listed category has an id in the inventory
    cd = ground.load_jsonnet(ground.MODELS + '/cat_dict.en.jsonnet')['cat_dict']
    ids = {c: i for i, c in enumerate(Category.parse(t) for t in files['targets.en'])}
    nwords = 0
    for w, cs in cd.items():
        nwords += 1
        try:
            [ids[Category.parse(c)] for c in cs]
        except KeyError as e:
            bad.append(('cat_dict.en', w, 'entry not applicable: %r' % (e,)))
    # every shipped configuration: the dictionary it configures (if any) against the inventory it configures
    import glob
    import re as _re
    configs = {}
    for p in sorted(glob.glob(os.path.join(ground.MODELS, 'config*.jsonnet'))):
        cfg = os.path.basename(p)[:-len('.jsonnet')]
        text = open(p, encoding='utf-8').read()
        imports = {m.group(1): (m.group(2), m.group(3)) for m in _re.finditer(r"local\s+(\w+)\s*=\s*\(import\s+'([^']+)'\)\.(\w+)\s*;", text)}
        fields = {m.group(1): m.group(2) for m in _re.finditer(r"^\s*(cat_dict|targets)\s*:\s*(\w+)\s*,?\s*$", text, flags=_re.M)}
        has = 'cat_dict' in fields or bool(_re.search(r'^\s*cat_dict\s*:', text, flags=_re.M))
        configs[cfg] = has
        if not has:
            continue
        if _re.search(r'^\s*cat_dict\s*:\s*\{\s*\}\s*,?\s*$', text, flags=_re.M):
            configs[cfg] = dict(dictionary='inline, empty', dictionary_categories=0, missing_from_inventory=0)
            continue
        if fields.get('cat_dict') not in imports or fields.get('targets') not in imports:
            # neither "name bound to an import" nor an empty literal: outside what this stage can read - refuse rather than guess
            raise RuntimeError('%s configures cat_dict/targets in a form the jsonnet-subset reader does not resolve' % cfg)
        (df, dfield), (tf, tfield) = imports[fields['cat_dict']], imports[fields['targets']]
        try:
            dct = ground.load_jsonnet(os.path.join(ground.MODELS, df))[dfield]
            inv = {Category.parse(t) for t in ground.load_jsonnet(os.path.join(ground.MODELS, tf))[tfield]}
        except Exception as e:
            bad.append((cfg, df + '/' + tf, 'not readable: ' + type(e).__name__))
            continue
        miss = sorted({c for cs in dct.values() for c in cs if Category.parse(c) not in inv})
        configs[cfg] = dict(dictionary=df, inventory=tf, dictionary_categories=len({c for cs in dct.values() for c in cs}), missing_from_inventory=len(miss))
        for c in miss[:5]:
            bad.append((cfg, c, 'category of %s is not in %s: apply_category_filters raises KeyError under this configuration' % (df, tf)))
    return dict(ground_files={k: len(v) for k, v in files.items() if not k.startswith('tests/')}, ground_strings=total, dictionary_words=nwords,
                configs_with_dictionary=configs, ground_bad=bad[:10]), bad
