"""C02 — every returned parse is a derivation licensed by grammar and input."""
from lib import search as S
from checks import c01

FUNCTIONS = c01.FUNCTIONS + ['depccg/parsing.pyx: run, retrieve_tree, scaffold, init_config (translated, executed on the native build): the Tree objects delivered for one witness of EVERY explored path are validated',
                            'depccg/tree.py: Tree.make_terminal/make_unary/make_binary']
BOUNDS = {
    'quick': 'every path of the search for: n = 1 (4 tags, unary), n = 2 (2 tags per word; G5, G4 with several results per pair, G3c unary chain), n = 3 with one admitted tag per word (G1, G2, G7/G7x: unary step over a two-word head-final span, real en/ja tables); n-best 1-3; all scores solver variables.  Per path: the back-pointer tree is validated symbolically, and the tree delivered by the real finalizer for a solver-chosen witness is validated and must equal it',
    'thorough': 'adds n = 3 with G4 n-best 3, n = 4 GU',
}
OUTSIDE = c01.OUTSIDE
ASSUMPTIONS = c01.ASSUMPTIONS + ['for a fixed path of parse_sentence every non-score datum (pops, back-pointers, rule ids, finalizer calls) is fixed, so the delivered tree is the same for every matrix of the path\'s region: one witness per region decides the region',
                                 'seen-rule filtering is part of the binary callback; tables are closed under the unfiltered real rule functions']


def obligations(tier):
    q = tier == 'quick'
    obs = []
    g4 = S.G4()
    obs.append(S.SOb('C02.valid[G4,n=2,tags=2,nbest=%d]' % (2 if q else 3), g4, 2, ([(1, 0)] if q else ()), pruning=2, penalty='sym', nbest=(2 if q else 3)))
    obs.append(S.SOb('C02.valid[G4,n=2,tags=2,nbest=1,prune=1]', g4, 2, pruning=1, penalty='sym'))
    obs.append(S.SOb('C02.valid[G8,n=2,tags=2]', S.G8(), 2, pruning=2, penalty='sym'))
    obs.append(S.SOb('C02.valid[G8,n=2,tags=2,nbest=2]', S.G8(), 2, pruning=2, penalty='sym', nbest=2))
    obs.append(S.SOb('C02.valid[G5,n=2,tags=2,empty root set]', dict(S.G5(True), roots=[], name='G5-noroot'), 2, pruning=2, penalty='0'))      # no category is an allowed root: every sentence fails
    obs.append(S.SOb('C02.valid[G6,n=1,tags=4,prune=2]', S.G6(), 1, pruning=2, penalty='sym'))
    obs.append(S.SOb('C02.valid[G5,n=2,tags=2,prune=1]', S.G5(True), 2, pruning=1, penalty='0'))
    obs.append(S.SOb('C02.valid[G6,n=1,tags=4,nbest=2]', S.G6(), 1, ([(0, 3)] if q else ()), pruning=4, penalty='sym', nbest=2))
    obs.append(S.SOb('C02.valid[G5,n=2,tags=2,nbest=2]', S.G5(True), 2, pruning=2, penalty='0', nbest=2))
    obs.append(S.SOb('C02.valid[G3c,n=2,tags=1]', S.G3(True), 2, S.one_tag(2, 2), pruning=1, penalty='sym'))
    for g in (S.G1(True), S.G1(False)):
        obs.append(S.SOb('C02.valid[%s,n=3,tags=1,nbest=2]' % g['name'], g, 3, S.one_tag(3, 3), pruning=1, penalty='0', nbest=2))
    for lang, tags in (('en', [0, 2, 0]), ('ja', [0, 1, 2]), ('en', [3, 1])):
        g = S.real_grammar(lang)
        obs.append(S.SOb('C02.valid[%s,n=%d,tags=1:%s]' % (g['name'], len(tags), tags), g, len(tags), S.one_tag(len(tags), g['T'], tags), pruning=1, penalty='sym'))
    obs.append(S.SOb('C02.valid[G1,n=3,tags=1,max_step=5]', S.G1(True), 3, S.one_tag(3, 3), pruning=1, penalty='0', max_step=5))
    obs.append(S.SOb('C02.valid[G7,n=3,tags=1,penalty=sym]', S.G7(False), 3, S.one_tag(3, 3), pruning=1, penalty='sym'))
    obs.append(S.SOb('C02.valid[G7,n=3,tags=1,nbest=2]', S.G7(False), 3, S.one_tag(3, 3), pruning=1, penalty='sym', nbest=2))
    obs.append(S.SOb('C02.valid[G7x,n=3,tags=1,nbest=2]', S.G7x(False), 3, S.one_tag(3, 3), pruning=1, penalty='sym', nbest=2))
    if not q:
        obs.append(S.SOb('C02.valid[G4,n=3,tags=1:[0,1,0],nbest=3]', g4, 3, S.one_tag(3, 2, [0, 1, 0]), pruning=1, penalty='sym', nbest=3, max_seconds=450))
        obs.append(S.SOb('C02.valid[GU,n=4,tags=1]', c01.GUn(4), 4, S.one_tag(4, 4), pruning=1, penalty='0', max_seconds=600))
    return obs


def main(tier):
    return S.run_search_check('C02', tier, obligations(tier), ('C02.', 'C16.leaf-outside-beam'), FUNCTIONS, BOUNDS[tier], OUTSIDE, ASSUMPTIONS,
                              records_for_validation=True, record_every=1)
