"""C18 — printing is an observation: it changes nothing and is repeatable."""
import os
from lib.framework import Obligation
from lib import env, trees
from lib.trees import TreeBuilder, SHAPES, shape_name, nleaves
from engines.pysym.explore import TOKEN
from engines.pysym.core import sym_str

FUNCTIONS = ['depccg.printer.to_string and every formatter behind it (auto, auto_extended, conll, deriv, html, json, ptb, xml, jigg_xml, prolog en/ja, ja)',
             'depccg.tree.Tree accessors', 'depccg.types.Token']
NEED_NLTK = ('ccg2lambda', 'jigg_xml_ccg2lambda')


def cli_formats():
    """the formats the CLI offers per language, read from the `--format` choices in depccg/argparse.py of the tree under test (an offered
    format that the printer cannot dispatch is then seen by the render-everything harnesses); the two formats that need nltk are left out"""
    import ast
    from engines.pysym import hook
    src = open(os.path.join(hook.REPO, 'depccg', 'argparse.py'), encoding='utf-8').read()
    out = {}
    for node in ast.walk(ast.parse(src)):
        if isinstance(node, ast.Call) and isinstance(node.func, ast.Attribute) and node.func.attr == 'add_argument' \
                and any(isinstance(a, ast.Constant) and a.value == '--format' for a in node.args):
            who = ast.unparse(node.func.value)
            lang = 'en' if 'english' in who else ('ja' if 'japanese' in who else None)
            for kw in node.keywords:
                if kw.arg == 'choices' and lang:
                    out[lang] = [f for f in ast.literal_eval(kw.value) if f not in NEED_NLTK]
    if sorted(out) != ['en', 'ja'] or not all(out.values()):
        raise RuntimeError('could not read the --format choices of the English and Japanese sub-commands from depccg/argparse.py')
    return out


FORMATS = cli_formats()
BOUNDS = {
    'quick': 'every sequence of 2 formats (and of 3 formats starting with jigg_xml/xml/json) of the language\'s CLI choice list except ccg2lambda/jigg_xml_ccg2lambda, applied to the same result objects; batch of 1-2 sentences x 1-2 trees of <= 2 leaves (+unary); one symbolic token word of 1-2 code points',
    'thorough': 'every sequence of 3 formats; trees of <= 3 leaves',
}
OUTSIDE = 'ccg2lambda / jigg_xml_ccg2lambda (need nltk); longer format sequences; lxml/json serialisation (stand-ins in symbolic runs, real libraries in replays)'
ASSUMPTIONS = ['lxml.etree and json.dumps are replaced by pure-Python stand-ins in symbolic runs', 'token alphabet: printable non-blank (Appendix A of DESIGN.md), XML-compatible']


def snapshot(results):
    out = []
    for sent in results:
        for st in sent:
            out.append(('score', st.score))
            for nd in trees.walk(st.tree):
                out.append((sym_str(nd.cat), nd.op_string, nd.op_symbol, bool(nd.head_is_left), len(nd.children)))
                if nd.is_leaf:
                    tok = nd.children[0]
                    out.append(('token', id(tok), tuple(tok.items())))
    return out


PUNCT = dict(leaf=[',', 'NP', '.', 'conj'], node=['NP', 'S[dcl]', 'NP\\NP'])      # punctuation categories at leaves (formats treat them specially)


def make_results(d, lang, shape, batch, nbest, n, minimal=False, extra=False, unsorted=False, punct=False):
    from depccg.tree import ScoredTree, Tree
    from depccg.cat import Category
    res = []
    for s in range(batch):
        sent = []
        for k in range(nbest):
            def w(dd, name, i, s=s, k=k):
                if s == 0 and k == 0 and i == 0 and n:
                    return dd.string('word', n, TOKEN)
                return 'w%d' % i
            tb = TreeBuilder(d, lang, word=w, heads=(k % 2 == 0), labels=s + k, prefix='t%d_%d' % (s, k), cats=(PUNCT if punct is True else None))
            t = tb.build(shape)
            if punct == 'symbol-labels':      # trees as the Japanese bank reader builds them: the label IS the symbol (< > >B <B1 ...)
                for nd in trees.walk(t):
                    if not nd.is_leaf:
                        nd.op_string = nd.op_symbol
            if extra:
                # tokens carrying further attributes, some named like the formats' own fields
                for i, leaf in enumerate(t.leaves):
                    leaf.children[0].update(start=str(10 + i), span='2', cat='X', id='tok%d' % i, misc='m')
            if minimal is True or (minimal == 'first' and s == 0):
                # tokens as the readers / the failure placeholder build them: only the word is known
                for leaf in t.leaves:
                    tok = leaf.children[0]
                    for key in list(tok.keys()):
                        if key not in ('word',):
                            del tok[key]
            sent.append(ScoredTree(t, -1.5 - k if not unsorted else -3.5 + k))
        res.append(sent)
    if minimal is True:
        res.append([ScoredTree(Tree.make_terminal('FAILED', Category.parse('NP')), -float('inf'))])
    if minimal == 'first':      # a failed sentence and a word-only sentence BEFORE a fully attributed one
        res.insert(0, [ScoredTree(Tree.make_terminal('FAILED', Category.parse('NP')), -float('inf'))])
    return res


def h_seq(d, lang, shape, batch, nbest, n, seqlen, first=None, minimal=False, extra=False, unsorted=False, punct=False):
    from depccg.printer import to_string
    from depccg.lang import set_global_language_to
    set_global_language_to(lang)
    fmts = FORMATS[lang]
    res = make_results(d, lang, shape, batch, nbest, n, minimal, extra, unsorted, punct)
    snap0 = snapshot(res)
    out = None
    seq = []
    first_out = {}
    for step in range(seqlen):
        f = first if (step == 0 and first) else d.pick('fmt%d' % step, fmts)
        seq.append(f)
        try:
            out = to_string(res, format=f)
        except Exception as e:
            return ('render-raises.%s.after-%s:%s' % (f, '+'.join(seq[:-1]) or 'nothing', type(e).__name__),)
        if snapshot(res) != snap0:
            return ('mutated-by.' + f, seq)
        if f in first_out and out != first_out[f]:
            return ('output-differs-when-rendered-again.%s' % f, seq)      # the printer itself keeps state between renderings
        first_out.setdefault(f, out)
    fresh = make_results(_Again(d), lang, shape, batch, nbest, n, minimal, extra, unsorted, punct)
    try:
        out2 = to_string(fresh, format=seq[-1])
    except Exception as e:
        return ('fresh-render-raises.%s:%s' % (seq[-1], type(e).__name__),)
    if out != out2 or out2 != first_out[seq[-1]]:
        return ('output-differs-from-fresh-copy.%s.after-%s' % (seq[-1], '+'.join(seq[:-1])),)
    return True


class _Again:
    """re-issues the values already drawn (a fresh copy of the same symbolic inputs)"""

    def __init__(self, d):
        self.d, self.symbolic = d, d.symbolic
        self.cache = getattr(d, '_again_cache', None)

    def string(self, name, n, alpha):
        if self.d.symbolic:
            if name not in self.d.vars:
                return self.d.string(name, n, alpha)
            kind, vs = self.d.vars[name]
            from engines.pysym.core import mk
            return mk(vs)
        return self.d.values[name]

    def boolean(self, name):
        return self.choice(name, 2) == 1

    def choice(self, name, k):
        if self.d.symbolic:
            raise RuntimeError('choice re-issue not supported')
        return self.d.values[name]

    def pick(self, name, seq):
        seq = list(seq)
        return seq[self.choice(name, len(seq))]


def obligations(tier):
    q = tier == 'quick'
    for lang in ('en', 'ja'):
        shapes = [SHAPES[1][0], SHAPES[2][0], SHAPES[2][1]] if q else [SHAPES[1][0], SHAPES[2][0], SHAPES[2][1], SHAPES[3][0]]
        for s in shapes:
            for batch, nbest in ((1, 1), (2, 2)):
                if nleaves(s) > 1 and (batch, nbest) == (2, 2) and q and s != SHAPES[2][0]:
                    continue
                n = 1 if (batch, nbest) == (1, 1) else 0
                yield Obligation('C18.seq[%s,%s,batch=%dx%d,len=2]' % (lang, shape_name(s), batch, nbest), 'h_seq',
                                 dict(lang=lang, shape=s, batch=batch, nbest=nbest, n=n, seqlen=2), cost=10)
                if (batch, nbest) == (2, 2) and s == SHAPES[2][0]:
                    yield Obligation('C18.seq[%s,%s,batch=2x2,n-best lists not in score order,len=2]' % (lang, shape_name(s)), 'h_seq',
                                     dict(lang=lang, shape=s, batch=2, nbest=2, n=0, seqlen=2, unsorted=True), cost=10)
                if (batch, nbest) == (1, 1) and s == SHAPES[2][0] and lang == 'ja':      # (the English Prolog printer keys on English labels)
                    yield Obligation('C18.seq[%s,%s,rule labels are the symbols (< > ...),len=2]' % (lang, shape_name(s)), 'h_seq',
                                     dict(lang=lang, shape=s, batch=1, nbest=1, n=0, seqlen=2, punct='symbol-labels'), cost=10)
                if (batch, nbest) == (1, 1) and lang == 'en' and s in (SHAPES[2][0], SHAPES[3][0]):
                    yield Obligation('C18.seq[%s,%s,punctuation categories at the leaves,len=2]' % (lang, shape_name(s)), 'h_seq',
                                     dict(lang=lang, shape=s, batch=1, nbest=1, n=0, seqlen=2, punct=True), cost=10)
                if (batch, nbest) == (1, 1) and s in (SHAPES[1][0], SHAPES[2][0]):
                    yield Obligation('C18.seq[%s,%s,word-only tokens + failed sentence,len=2]' % (lang, shape_name(s)), 'h_seq',
                                     dict(lang=lang, shape=s, batch=1, nbest=1, n=0, seqlen=2, minimal=True), cost=10)
                    yield Obligation('C18.seq[%s,%s,failed + word-only sentence before an attributed one,len=2]' % (lang, shape_name(s)), 'h_seq',
                                     dict(lang=lang, shape=s, batch=2, nbest=1, n=0, seqlen=2, minimal='first'), cost=10)
                    yield Obligation('C18.seq[%s,%s,tokens with extra attributes (start span cat id),len=2]' % (lang, shape_name(s)), 'h_seq',
                                     dict(lang=lang, shape=s, batch=1, nbest=1, n=0, seqlen=2, extra=True), cost=10)
                if (batch, nbest) == (1, 1):
                    for first in (['jigg_xml', 'xml', 'json', 'prolog'] if q else FORMATS[lang]):
                        if first in FORMATS[lang]:
                            yield Obligation('C18.seq[%s,%s,batch=1x1,len=3,first=%s]' % (lang, shape_name(s), first), 'h_seq',
                                             dict(lang=lang, shape=s, batch=1, nbest=1, n=(2 if s == 'L' else 1), seqlen=3, first=first), cost=30)
