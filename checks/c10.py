"""C10 — n-best results are the k best distinct derivations, best first."""
from lib import search as S
from checks import c01

FUNCTIONS = c01.FUNCTIONS
BOUNDS = {
    'quick': 'k in {2,3} (and k above the number of derivations: G8 n = 2 k = 2, G6 n = 1 k = 8); n = 1 (4 tags, unary rules), n = 2 (2 tags per word; G5, G5r, G4 with duplicate results), n = 3 with one admitted tag per word (G1, GU: 2 derivations); n = 3 with two tags on the middle word (G9r, head-final, 3 derivations, k = 2; the cells no derivation uses and the tag scores of the unambiguous words held at stated constants); all scores solver variables; per path: count = min(k, #derivations), trees pairwise different, scores non-increasing, every derivation not returned scores <= the last returned one, first result optimal',
    'thorough': 'adds n = 3 with G3c/unary, k = 3 on GU n = 4 (5 derivations)',
}
OUTSIDE = c01.OUTSIDE + '; k > 3'
ASSUMPTIONS = c01.ASSUMPTIONS


def obligations(tier):
    q = tier == 'quick'
    obs = []
    for k in (2, 3):
        obs.append(S.SOb('C10.nbest[G5,n=2,tags=2,k=%d]' % k, S.G5(True), 2, pruning=2, penalty='0', nbest=k))
        obs.append(S.SOb('C10.nbest[G6,n=1,tags=4,k=%d]' % k, S.G6(), 1, ([(0, 3)] if q else ()), pruning=4, penalty='sym', nbest=k))
    obs.append(S.SOb('C10.nbest[G5r,n=2,tags=2,k=2]', S.G5(False), 2, pruning=2, penalty='0', nbest=2))
    # fewer derivations than k: all of them are due (G8: one derivation for two words; G6: six for one word)
    obs.append(S.SOb('C10.nbest[G8,n=2,tags=2,k=2 > 1 derivation]', S.G8(), 2, pruning=2, penalty='sym', nbest=2))
    obs.append(S.SOb('C10.nbest[G6,n=1,tags=4,k=8 > 6 derivations]', S.G6(), 1, ([(0, 3)] if q else ()), pruning=4, penalty='sym', nbest=8))
    obs.append(S.SOb('C10.nbest[G4,n=2,tags=2,k=%d]' % (2 if q else 3), S.G4(), 2, ([(1, 0)] if q else ()), pruning=2, penalty='sym', nbest=(2 if q else 3)))
    obs.append(S.SOb('C10.nbest[G1,n=3,tags=1,k=2]', S.G1(True), 3, S.one_tag(3, 3), pruning=1, penalty='0', nbest=2))
    obs.append(S.SOb('C10.nbest[G2,n=3,tags=1,k=3]', S.G1(False), 3, S.one_tag(3, 3), pruning=1, penalty='0', nbest=3))
    obs.append(S.SOb('C10.nbest[G1,n=3,tags=1,k=2,max_step=6]', S.G1(True), 3, S.one_tag(3, 3), pruning=1, penalty='0', nbest=2, max_step=6))
    for hl in ((False,) if q else (False, True)):
        below, eq = S.G9_slice(hl)
        obs.append(S.SOb('C10.nbest[%s,n=3,tags=1-2-1,k=2]' % ('G9' if hl else 'G9r'), S.G9(hl), 3, below, pruning=2, penalty='0', nbest=2, eq=eq))
    if not q:
        obs.append(S.SOb('C10.nbest[GU,n=4,tags=1,k=3]', c01.GUn(4), 4, S.one_tag(4, 4), pruning=1, penalty='0', nbest=3, max_seconds=600))
        obs.append(S.SOb('C10.nbest[G3c,n=2,tags=2,k=2]', S.G3(True), 2, pruning=2, penalty='sym', nbest=2, max_seconds=450))
    return obs


def main(tier):
    return S.run_search_check('C10', tier, obligations(tier), ('C10.',), FUNCTIONS, BOUNDS[tier], OUTSIDE, ASSUMPTIONS,
                              records_for_validation=True, record_every=(10 if tier == 'quick' else 20))
