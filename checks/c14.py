"""C14 — rule application is a pure, total, reproducible function; filters only remove."""
import os
import subprocess
import sys
from lib.framework import Obligation, PY, VERIF
from lib import catgen
from lib.catgen import Builder, shapes_upto, shape_name, nleaves, PLAIN, CATCHAR, FEATCHAR
from engines.pysym import hook, core
from engines.pysym.core import sym_str
from oracles import schemata_en as S

SYMBOLIC = os.environ.get('VERIF_CONCRETE') != '1'
if SYMBOLIC:
    hook.collapse_hashes()

FUNCTIONS = ['depccg.grammar.en.apply_binary_rules/apply_unary_rules', 'depccg.grammar.ja.apply_binary_rules/apply_unary_rules',
             'depccg.grammar.apply_rules', 'depccg.unification.Unification (with the iteration order of its variable set symbolic)']
BOUNDS = {
    'quick': 'category pairs: shape pairs with <= 4 leaves in total (unary features for en, feature triples for ja), strings of 1 code point; order obligation: 2-3 shared variable positions (all 2!/3! iteration orders), features symbolic; seen-rule sets with one symbolic and one fixed pair; unary tables with <= 3 keys (symbolic)',
    'thorough': 'shape pairs with <= 5 leaves in total, strings up to 2 code points; order obligation up to 4 shared positions (24 orders)',
}
OUTSIDE = 'larger inputs; actual values of PYTHONHASHSEED (the iteration order is the solver variable; seeds are only searched to replay a found difference)'
ASSUMPTIONS = ['Japanese inputs carry feature triples on every atom (well-formed for that grammar)',
               'category/feature hashes are collapsed to a constant in symbolic runs (dict/set lookups become equality scans)',
               'a difference between two iteration orders is replayed by running the concrete pair under PYTHONHASHSEED=0..63 in fresh interpreters']


def snapshot(c):
    """deep structural snapshot (plain tuples/strings) of a category"""
    if c.is_functor:
        return ('F', snapshot(c.left), c.slash, snapshot(c.right))
    f = c.feature
    if hasattr(f, 'kv1'):
        return ('A', c.base, ('T', f.kv1, f.kv2, f.kv3))
    return ('A', c.base, ('U', f.value))


def same_results(a, b):
    if len(a) != len(b):
        return False
    for r, s in zip(a, b):
        if not (S.ceq(r.cat, s.cat) and r.op_string == s.op_string and r.op_symbol == s.op_symbol and r.head_is_left == s.head_is_left):
            return False
    return True


def grammar(lang):
    from depccg.grammar import en, ja
    return en if lang == 'en' else ja


def build_pair(d, lang, sx, sy, lf, full):
    nx = nleaves(sx)
    fx = None if full is None else {i for i in full if i < nx}
    fy = None if full is None else {i - nx for i in full if i >= nx}
    kw = dict(lb=1, lf=lf, feat='mixed' if lang == 'en' else 'ternary', keys=('k1', 'k2', 'k3'))
    return Builder(d, 'x', full=fx, **kw).build(sx), Builder(d, 'y', full=fy, **kw).build(sy)


def h_pure(d, lang, sx, sy, lf, full, nb_each=False):
    g = grammar(lang)
    x, y = build_pair(d, lang, sx, sy, lf, full)
    sx0, sy0 = snapshot(x), snapshot(y)
    try:
        r1 = g.apply_binary_rules(x, y)
    except Exception as e:
        return ('raises:' + type(e).__name__, lang, sym_str(x), sym_str(y))
    if not isinstance(r1, list):
        return ('not-a-list',)
    if snapshot(x) != sx0 or snapshot(y) != sy0:
        return ('argument-mutated', lang)
    r2 = g.apply_binary_rules(x, y)
    if not same_results(r1, r2):
        return ('second-call-differs', lang, sym_str(x), sym_str(y))
    if lang == 'en':
        # results do not depend on nb marks: toggle absent <-> nb at a symbolic leaf
        leaves = S.leaves(x) + S.leaves(y)
        k = d.choice('nb_at', len(leaves)) if nb_each else -1

        def toggle(c, counter):
            from depccg.cat import Atom, Functor, UnaryFeature
            if c.is_functor:
                l = toggle(c.left, counter)
                return Functor(l, c.slash, toggle(c.right, counter))
            i = counter[0]
            counter[0] += 1
            if i == k or k < 0:
                v = c.feature.value
                if v is None:
                    return Atom(c.base, UnaryFeature('nb'))
                if v == 'nb':
                    return Atom(c.base)
            return c
        cnt = [0]
        x2 = toggle(x, cnt)
        y2 = toggle(y, cnt)
        r3 = g.apply_binary_rules(x2, y2)
        if not same_results(r1, r3):
            return ('depends-on-nb', sym_str(x), sym_str(y), sym_str(x2), sym_str(y2))
    return True


def h_history(d, lang, sx, sy, lf, full):
    """the same list on every call, in every process: a pair is asked after its feature-erased twin (and the twin after the pair) in one
    process; each answer must be the one a fresh process gives"""
    from lib import env
    env.fresh_state()
    g = grammar(lang)
    x, y = build_pair(d, lang, sx, sy, lf, full)
    try:
        xt, yt = x.clear_features('X', 'nb'), y.clear_features('X', 'nb')
        alone = g.apply_binary_rules(x, y)
        env.fresh_state()
        twin_alone = g.apply_binary_rules(xt, yt)
        env.fresh_state()
        g.apply_binary_rules(xt, yt)
        after_twin = g.apply_binary_rules(x, y)
        env.fresh_state()
        g.apply_binary_rules(x, y)
        twin_after = g.apply_binary_rules(xt, yt)
        env.fresh_state()
    except Exception as e:
        return ('raises:' + type(e).__name__, lang, sym_str(x), sym_str(y))
    if not same_results(alone, after_twin):
        return ('result-depends-on-earlier-calls', lang, sym_str(x), sym_str(y), 'asked after its feature-erased twin')
    if not same_results(twin_alone, twin_after):
        return ('result-depends-on-earlier-calls', lang, sym_str(xt), sym_str(yt), 'the feature-erased twin asked after the pair')
    return True


class OrderSet(core.SymSet):
    """set whose iteration order is a symbolic permutation (the string-hash seed as a solver variable)"""

    def __iter__(self):
        rest = list(self.items)
        out = []
        while rest:
            out.append(rest.pop(core.choose(len(rest))))
        return iter(out)


def h_order(d, lang, case, lf):
    """several occurrences of one feature variable bound to different values: the result must not depend on the iteration order"""
    from depccg.cat import Atom, Functor, UnaryFeature, TernaryFeature
    import depccg.unification as U
    g = grammar(lang)
    if lang == 'en':
        def at(name, base):
            return Atom(base, UnaryFeature(d.string(name, lf, FEATCHAR)))
    else:
        def at(name, base):
            return Atom(base, TernaryFeature(('k1', d.string(name + '.1', lf, PLAIN)), ('k2', 'b'), ('k3', 'c')))
    if case == 'fa2':      # S[f]/(N[g]/N[h])  +  N[p]/N[q]
        x = Functor(at('f', 'S'), '/', Functor(at('g', 'N'), '/', at('h', 'N')))
        y = Functor(at('p', 'N'), '/', at('q', 'N'))
    elif case == 'fa3':    # S[f]/((N[g]/N[h])/N[i])  +  (N[p]/N[q])/N[r]
        x = Functor(at('f', 'S'), '/', Functor(Functor(at('g', 'N'), '/', at('h', 'N')), '/', at('i', 'N')))
        y = Functor(Functor(at('p', 'N'), '/', at('q', 'N')), '/', at('r', 'N'))
    elif case == 'ba2':    # N[p]\N[q]  +  S[f]\(N[g]\N[h])
        y = Functor(at('f', 'S'), '\\', Functor(at('g', 'N'), '\\', at('h', 'N')))
        x = Functor(at('p', 'N'), '\\', at('q', 'N'))
    elif case == 'fc2':    # S[f]/(N[g]\N[h])  +  (N[p]\N[q])/M[r]
        x = Functor(at('f', 'S'), '/', Functor(at('g', 'N'), '\\', at('h', 'N')))
        y = Functor(Functor(at('p', 'N'), '\\', at('q', 'N')), '/', at('r', 'M'))
    elif case == 'fa4':
        x = Functor(at('f', 'S'), '/', Functor(Functor(at('g', 'N'), '/', at('h', 'N')), '/', Functor(at('i', 'N'), '/', at('j', 'N'))))
        y = Functor(Functor(at('p', 'N'), '/', at('q', 'N')), '/', Functor(at('r', 'N'), '/', at('s', 'N')))
    else:
        raise ValueError(case)
    if not d.symbolic:
        return seeds_agree(lang, str(x), str(y))
    saved = U.__dict__.get('set')
    try:
        U.__dict__['set'] = core.SymSet
        r_fixed = g.apply_binary_rules(x, y)
        U.__dict__['set'] = OrderSet
        r_any = g.apply_binary_rules(x, y)
    finally:
        U.__dict__['set'] = saved
    if not same_results(r_fixed, r_any):
        return ('order-dependent', lang, sym_str(x), sym_str(y))
    return True


_SEED_PROG = r'''
import sys
sys.path.insert(0, %r)
from engines.pysym import hook
hook.install(instrument=False)
from depccg.cat import Category
from depccg.grammar import en, ja
g = en if sys.argv[1] == 'en' else ja
print([(str(r.cat), r.op_string, r.op_symbol, r.head_is_left) for r in g.apply_binary_rules(Category.parse(sys.argv[2]), Category.parse(sys.argv[3]))])
'''


def seeds_agree(lang, xt, yt, seeds=range(0, 64)):
    outs = {}
    procs = []
    for s in seeds:
        env = dict(os.environ, PYTHONHASHSEED=str(s))
        procs.append((s, subprocess.Popen([PY, '-c', _SEED_PROG % VERIF, lang, xt, yt], stdout=subprocess.PIPE, stderr=subprocess.PIPE, text=True, env=env)))
    for s, p in procs:
        o, e = p.communicate()
        if p.returncode != 0:
            return ('seed-run-failed', e[-300:])
        outs.setdefault(o.strip(), []).append(s)
    if len(outs) > 1:
        items = sorted(outs.items(), key=lambda kv: kv[1][0])
        return ('order-dependent', lang, xt, yt, [(o, ss[:3]) for o, ss in items[:3]])
    return True


def erase(c, names):
    from depccg.cat import Atom, Functor
    if c.is_functor:
        return Functor(erase(c.left, names), c.slash, erase(c.right, names))
    v = getattr(c.feature, 'value', None)
    if v is not None and any(v == n for n in names):
        return Atom(c.base)
    return c


def _with_bases(d, name, shape, bases, lang, lf, mode, symbase=-1):
    """category of the given shape with concrete bases (leaf symbase: one symbolic character) and symbolic features"""
    from depccg.cat import Atom, Functor, UnaryFeature, TernaryFeature
    k = [0]

    def rec(sh):
        if sh == 'a':
            i = k[0]
            k[0] += 1
            base = d.string('%s.b%d' % (name, i), 1, PLAIN) if i == symbase else bases[i]
            if lang == 'ja':
                f = TernaryFeature(('k1', d.string('%s.v%d' % (name, i), lf, PLAIN)), ('k2', 'b'), ('k3', 'c'))
            elif mode == 'u' or d.boolean('%s.hasf%d' % (name, i)):
                f = UnaryFeature(d.string('%s.f%d' % (name, i), lf, FEATCHAR))
            else:
                f = UnaryFeature()
            return Atom(base, f)
        l = rec(sh[0])
        return Functor(l, d.char_in('%s.s%d' % (name, k[0]), '/\\'), rec(sh[1]))
    return rec(shape)


def h_seen(d, lang, sx, sy, lf, symbase, variant='two'):
    g = grammar(lang)
    nx = nleaves(sx)
    bases = ('S', 'N', 'N', 'S')
    # inputs: concrete bases, every leaf carries a symbolic feature (X / nb reachable); the filter is about features and membership
    x = _with_bases(d, 'x', sx, bases, lang, lf, 'u')
    y = _with_bases(d, 'y', sy, bases[nx:], lang, lf, 'u')
    # the seen set: one symbolic pair of the same shapes (feature present or absent per leaf, one base symbolic) and one fixed pair
    p = _with_bases(d, 'p', sx, bases, lang, lf, 'm', symbase if symbase < nx else -1)
    q = _with_bases(d, 'q', sy, bases[nx:], lang, lf, 'm', symbase - nx if symbase >= nx else -1)
    from depccg.cat import Category
    fixed = (Category.parse('N/N'), Category.parse('N')) if lang == 'en' else (Category.parse('S[k1=a,k2=b,k3=c]'), Category.parse('S[k1=a,k2=b,k3=c]'))
    if lang == 'en':
        p, q = erase(p, ('X', 'nb')), erase(q, ('X', 'nb'))
    pairs = [(p, q), fixed]
    if variant == 'empty':
        pairs = []          # an empty seen-rule set contains no pair: every result must be filtered out
    elif variant == 'one':
        pairs = [(p, q)]
    seen = core.SymSet(pairs) if d.symbolic else set(pairs)
    free = g.apply_binary_rules(x, y)
    try:
        got = g.apply_binary_rules(x, y, seen)
    except Exception as e:
        return ('seen.raises:' + type(e).__name__, lang)
    key = (erase(x, ('X', 'nb')), erase(y, ('X', 'nb'))) if lang == 'en' else (x, y)
    member = any(S.ceq(key[0], a) and S.ceq(key[1], b) for a, b in pairs)
    if member:
        if not same_results(free, got):
            return ('seen.member-but-result-differs', lang, sym_str(x), sym_str(y))
    elif len(got) != 0:
        return ('seen.non-member-but-results', lang, sym_str(x), sym_str(y))
    return True


def h_unary(d, lang, nkeys, sk, lf, table_kind='dict', self_target=False):
    """tables with symbolic keys: exactly the configured targets in order for a key, nothing otherwise"""
    from depccg.cat import Category
    g = grammar(lang)
    kw = dict(lb=1, lf=lf, feat='mixed' if lang == 'en' else 'ternary', keys=('mod', 'k2', 'k3'))
    keys = [Builder(d, 'key%d' % i, **kw).build(sk) for i in range(nkeys)]
    x = Builder(d, 'x', **kw).build(sk)
    pool = [Category.parse(t) for t in (['NP', 'S/(S\\NP)', 'N/N', '(S\\NP)\\((S\\NP)/NP)'] if lang == 'en' else
                                        ['NP[k1=a,k2=b,k3=c]/NP[k1=a,k2=b,k3=c]', 'S[k1=X1,k2=X2,k3=c]/S[k1=X1,k2=X2,k3=c]', 'S[k1=a,k2=b,k3=c]'])]
    import collections
    table = collections.defaultdict(list) if table_kind == 'defaultdict' else {}
    targets = []
    for i, k in enumerate(keys):
        if k in table:        # equal keys collapse, as in a real dict
            continue
        ts = [pool[(i + j) % len(pool)] for j in range(1 + i % 3)]
        if self_target:
            ts = [k] + ts + [k]      # a table may map a category to itself (and list a target twice): exactly the configured targets, in order
        table[k] = ts
        targets.append((k, ts))
    sx0 = snapshot(x)
    nkeys_before = len(table)
    try:
        got = g.apply_unary_rules(x, table)
    except Exception as e:
        return ('unary.raises:' + type(e).__name__, lang, sym_str(x))
    if snapshot(x) != sx0:
        return ('unary.argument-mutated',)
    if len(table) != nkeys_before:
        return ('unary.table-mutated', lang, table_kind)
    exp = []
    for k, ts in targets:
        if S.ceq(k, x):
            exp = ts
            break
    if len(got) != len(exp):
        return ('unary.wrong-number-of-results', lang, len(got), len(exp), sym_str(x))
    for r, t in zip(got, exp):
        if not S.ceq(r.cat, t):
            return ('unary.wrong-target-or-order', lang)
    got2 = g.apply_unary_rules(x, table)
    if not same_results(got, got2):
        return ('unary.second-call-differs', lang)
    return True


def h_apply_rules(d, sx, sy):
    """depccg.grammar.apply_rules (cache + seen filter): cached answer equals recomputed answer"""
    from depccg.grammar import apply_rules, en
    x, y = build_pair(d, 'en', sx, sy, 1, None)
    p, q = build_pair(core_draw_prefix(d, 'p'), 'en', sx, sy, 1, None)
    seen = core.SymSet([(p, q)]) if d.symbolic else {(p, q)}
    cache = {}
    r1 = apply_rules(x, y, seen, en.combinators, cache)
    r2 = apply_rules(x, y, seen, en.combinators, cache)
    member = S.ceq(x, p) and S.ceq(y, q)
    exp = [c(x, y) for c in en.combinators]
    exp = [r for r in exp if r is not None] if member else []
    if not same_results(r1, exp) or not same_results(r2, exp):
        return ('apply_rules.differs', sym_str(x), sym_str(y))
    return True


class core_draw_prefix:
    """a view of a draw object that prefixes every name"""

    def __init__(self, d, p):
        self.d, self.p, self.symbolic = d, p, d.symbolic

    def string(self, name, n, alpha):
        return self.d.string(self.p + ':' + name, n, alpha)

    def char_in(self, name, chars):
        return self.d.char_in(self.p + ':' + name, chars)

    def choice(self, name, k):
        return self.d.choice(self.p + ':' + name, k)

    def boolean(self, name):
        return self.d.boolean(self.p + ':' + name)


def obligations(tier):
    q = tier == 'quick'
    sh = shapes_upto(3)
    import itertools
    for lang in ('en', 'ja'):
        for sx in sh:
            for sy in sh:
                n = nleaves(sx) + nleaves(sy)
                if n > 5:
                    continue
                for lf in ((1,) if q or n > 4 else (1, 2)):
                    if n <= 2:
                        fulls = [None]
                    elif n == 5 and q:
                        fulls = [[]]            # five leaves in the quick tier: every leaf over the plain alphabet (no focus leaf)
                    elif lang == 'en':
                        fulls = [None] if n <= 3 else ([[]] if q else [[i] for i in range(n)])
                    else:
                        fulls = [list(c) for c in itertools.combinations(range(n), 2)]
                    for full in fulls:
                        yield Obligation('C14.pure[%s,%s,%s,lf=%d,full=%s]' % (lang, shape_name(sx), shape_name(sy), lf, full), 'h_pure',
                                         dict(lang=lang, sx=sx, sy=sy, lf=lf, full=full, nb_each=(not q and n <= 3)), cost=n * n)
        if lang == 'en':
            for sx in sh:
                for sy in sh:
                    n = nleaves(sx) + nleaves(sy)
                    if n > (4 if q else 5):
                        continue
                    yield Obligation('C14.history[%s,%s,%s,twin asked before/after]' % (lang, shape_name(sx), shape_name(sy)), 'h_history',
                                     dict(lang=lang, sx=sx, sy=sy, lf=1, full=([] if n > 3 else None)), cost=n * n * 2)
        for case in (('fa2', 'ba2', 'fc2') if q else ('fa2', 'ba2', 'fc2', 'fa3', 'fa4')):
            for lf in ((1,) if q else (1, 2)):
                yield Obligation('C14.order[%s,%s,lf=%d]' % (lang, case, lf), 'h_order', dict(lang=lang, case=case, lf=lf), cost=60, max_seconds=600)
        for sx, sy in ((('a'), ('a')), (('a', 'a'), 'a'), ('a', ('a', 'a'))) + (() if q else ((('a', 'a'), ('a', 'a')),)):
            for lf in ((1, 2) if lang == 'en' else (1,)):
                for symbase in range(-1, nleaves(sx) + nleaves(sy)):
                    yield Obligation('C14.seen[%s,%s,%s,lf=%d,symbase=%d]' % (lang, shape_name(sx), shape_name(sy), lf, symbase), 'h_seen',
                                     dict(lang=lang, sx=sx, sy=sy, lf=lf, symbase=symbase), cost=20)
                for variant in ('empty', 'one'):
                    yield Obligation('C14.seen[%s,%s,%s,lf=%d,%s set]' % (lang, shape_name(sx), shape_name(sy), lf, variant), 'h_seen',
                                     dict(lang=lang, sx=sx, sy=sy, lf=lf, symbase=-1, variant=variant), cost=10)
        for nkeys in (1, 2, 3):
            for sk in (['a', ('a', 'a')] if q else shapes_upto(3)):
                if nkeys * nleaves(sk) > (3 if q else 6):
                    continue
                yield Obligation('C14.unary[%s,keys=%d,%s]' % (lang, nkeys, shape_name(sk)), 'h_unary', dict(lang=lang, nkeys=nkeys, sk=sk, lf=1 if lang == 'ja' else 2), cost=10)
                if nkeys == 1:
                    yield Obligation('C14.unary[%s,keys=1,%s,table with self-targets]' % (lang, shape_name(sk)), 'h_unary', dict(lang=lang, nkeys=1, sk=sk, lf=1, self_target=True), cost=10)
                    yield Obligation('C14.unary[%s,keys=1,%s,defaultdict table]' % (lang, shape_name(sk)), 'h_unary', dict(lang=lang, nkeys=1, sk=sk, lf=1, table_kind='defaultdict'), cost=10)
    for sx, sy in (('a', 'a'), (('a', 'a'), 'a')):
        yield Obligation('C14.apply_rules[%s,%s]' % (shape_name(sx), shape_name(sy)), 'h_apply_rules', dict(sx=sx, sy=sy), cost=10)
