"""C04 — Japanese combinatory rules are sound; unary steps are labelled by the shape of their input."""
from lib.framework import Obligation
from lib import catgen, ground
from lib.catgen import Builder, shapes_upto, shape_name, CATCHAR, TERNCHAR, PLAIN, nleaves
from engines.pysym.core import sym_str
from oracles import schemata_ja as J

FUNCTIONS = ['depccg.grammar.ja.apply_binary_rules and its 11 combinators', 'depccg.grammar.ja.apply_unary_rules/_unary_rule_symbol',
             'depccg.unification.Unification', 'depccg.cat (TernaryFeature.unifies/is_variable/__eq__, Functor/Atom)']
BOUNDS = {
    'quick': 'ordered pairs of categories with three-part features: every shape pair with <= 5 leaves in total (<= 3 per side), keys of 1 and values of 1-2 symbolic code points, slashes symbolic; schema-instantiated pairs for <B2..<B4 and >Bx2..>Bx3 (up to 7 leaves, plain alphabet); unary: every left-hand side of the shipped table and symbolic ones with 0-3 arguments and a symbolic mod value',
    'thorough': 'shape pairs with <= 6 leaves in total; values of 1-3 code points on <= 4 leaves; same schema instantiations with 2-leaf sub-parts',
}
OUTSIDE = 'larger categories; atoms without a feature triple or with unary features (not well-formed for this grammar); the | slash in inputs'
ASSUMPTIONS = ['every atom carries a three-part feature; keys/values contain no delimiters, "," or "="',
               'feature compatibility reading: one triple subsumes the other position-wise (a per-position mix is not demanded)',
               'unary labels: only the cases the statement names are demanded (adn with 0/1 arguments, adv with 0/1/2 arguments)']


def _roots():
    from depccg.grammar import ja
    return ja._possible_root_categories


def _check(x, y):
    from depccg.grammar import ja
    try:
        results = ja.apply_binary_rules(x, y)
    except Exception as e:
        return ('raises:' + type(e).__name__, sym_str(x), sym_str(y))
    for r in results:
        why = J.justified(r, x, y, _roots())
        if why is not None:
            return ('unsound.' + why, sym_str(x), sym_str(y), sym_str(r.cat), r.op_symbol)
    return True


KEYS = ('k1', 'k2', 'k3')


def h_pair(d, sx, sy, lb, lf, full, symkeys=False):
    nx = nleaves(sx)
    fx = None if full is None else {i for i in full if i < nx}
    fy = None if full is None else {i - nx for i in full if i >= nx}
    keys = None if symkeys else KEYS
    x = Builder(d, 'x', lb=lb, lf=lf, feat='ternary', full=fx, keys=keys).build(sx)
    y = Builder(d, 'y', lb=lb, lf=lf, feat='ternary', full=fy, keys=keys).build(sy)
    return _check(x, y)


def h_schema(d, schema, k, sb, lf):
    """x / y instantiating the premises of <Bk or >Bxk: shared part B with independent strings on both sides"""
    from depccg.cat import Functor

    def mk(name, shape='a', focus=False):
        return Builder(d, name, lb=1, lf=lf, feat='ternary', full=None if focus else set(), keys=KEYS).build(shape)
    from depccg.cat import Atom, TernaryFeature
    A, B1, B2, C = mk('A'), mk('B1', sb, nleaves(sb) == 1), mk('B2', sb, nleaves(sb) == 1), mk('C')
    if k >= 3:
        # the carried-over arguments only travel through the rule: fixed features, symbolic base and slash
        _mk = mk

        def mk(name, shape='a', focus=False):
            if name.startswith('D'):
                return Atom(d.string(name + '.b', 1, PLAIN), TernaryFeature(('k1', 'e1'), ('k2', 'e2'), ('k3', 'e3')))
            return _mk(name, shape, focus)
    if schema == '<B':
        x = Functor(B1, '\\', C)
        for i in range(k - 1):
            x = Functor(x, d.char_in('w%d' % i, '/\\'), mk('D%d' % i))
        y = Functor(A, '\\', B2)
    else:
        y = Functor(B2, '\\', C)
        for i in range(k - 1):
            y = Functor(y, d.char_in('w%d' % i, '/\\'), mk('D%d' % i))
        x = Functor(A, '/', B1)
    return _check(x, y)


def h_schema_deep(d, schema, sb, focus):
    """the consumed argument B has 3 leaves; leaf `focus` of B carries fully symbolic triples on both sides, the other leaves of B one
    symbolic value: a clash at ANY leaf of B must block the rule"""
    from depccg.cat import Functor
    nb = nleaves(sb)

    def mk(name, shape, full):
        return Builder(d, name, lb=1, lf=1, feat='ternary', full=full, keys=KEYS, smodes=['\\\\', '/'][:max(0, nleaves(shape) - 1)]).build(shape)
    A, B1, B2 = mk('A', 'a', set()), mk('B1', sb, {focus}), mk('B2', sb, {focus})
    if schema == '>':
        x, y = Functor(A, '/', B1), B2
    else:
        x, y = B1, Functor(A, '\\', B2)
    return _check(x, y)


def h_roots(d, i, j, perturb):
    """SSEQ: pairs of the listed root categories, one value perturbed symbolically"""
    from depccg.cat import Atom, TernaryFeature
    roots = _roots()

    def pert(c, name):
        f = c.feature
        kvs = [f.kv1, f.kv2, f.kv3]
        k = d.choice(name + '.which', 3)
        kvs[k] = (kvs[k][0], d.string(name + '.v', len(kvs[k][1]), TERNCHAR))
        return Atom(c.base, TernaryFeature(*kvs))
    x, y = roots[i], roots[j]
    if perturb == 'x':
        x = pert(x, 'x')
    elif perturb == 'y':
        y = pert(y, 'y')
    return _check(x, y)


KEYSETS = [('case', 'mod', 'fin'), ('mod', 'form', 'fin')]


def h_unary(d, nargs, ks, lmod, ntargets):
    """symbolic left-hand side: core atom with keys KEYSETS[ks] (mod value symbolic, lmod chars) and nargs arguments"""
    from depccg.cat import Atom, Functor, TernaryFeature, Category
    from depccg.grammar import ja
    keys = KEYSETS[ks]
    kvs = []
    for k in keys:
        n = lmod if k == 'mod' else 1
        kvs.append((k, d.string('core.' + k, n, TERNCHAR)))
    x = Atom(d.string('core.base', 1, PLAIN), TernaryFeature(*kvs))
    for i in range(nargs):
        arg = Atom('NP', TernaryFeature(('case', d.string('arg%d.case' % i, 1, PLAIN)), ('mod', 'nm'), ('fin', 'f')))
        x = Functor(x, d.char_in('s%d' % i, '/\\'), arg)
    targets = [Category.parse(t) for t in ('NP[case=nc,mod=X1,fin=X2]/NP[case=nc,mod=X1,fin=X2]', 'S[mod=X1,form=X2,fin=X3]/S[mod=X1,form=X2,fin=X3]')][:ntargets]
    table = {x: targets}
    return _check_unary(x, table, targets)


def _check_unary(x, table, targets):
    from depccg.grammar import ja
    try:
        results = ja.apply_unary_rules(x, table)
    except Exception as e:
        return ('unary.raises:' + type(e).__name__, sym_str(x))
    if len(results) != len(targets):
        return ('unary.count', sym_str(x), len(results))
    exp = J.expected_unary_label(x)
    for r, t in zip(results, targets):
        if r.cat != t:
            return ('unary.target-differs', sym_str(x))
        if exp is not None and (r.op_string != exp or r.op_symbol != exp):
            return ('unary.label.expected-' + exp + '.got-' + sym_str(r.op_string), sym_str(x))
    return True


def h_unary_shipped(d, idx):
    from depccg.cat import Category
    rules = ground.load_jsonnet(ground.MODELS + '/unary_rules.ja.jsonnet')['unary_rules']
    table = {}
    for l, r in rules:
        table.setdefault(Category.parse(l), []).append(Category.parse(r))
    x = list(table)[idx]
    return _check_unary(x, table, table[x])


def n_shipped_unary():
    from depccg.cat import Category
    rules = ground.load_jsonnet(ground.MODELS + '/unary_rules.ja.jsonnet')['unary_rules']
    return len({Category.parse(l) for l, _ in rules})


def obligations(tier):
    q = tier == 'quick'
    sh = shapes_upto(3)
    N = 5 if q else 6
    for sx in sh:
        for sy in sh:
            n = nleaves(sx) + nleaves(sy)
            if n > N:
                continue
            import itertools
            for lf in ((1, 2) if n <= 3 else (1,)) if q else ((1, 2, 3) if n <= 3 else (1, 2) if n == 4 else (1,)):
                if n <= 2:
                    fulls = [None]
                else:
                    fulls = [list(c) for c in itertools.combinations(range(n), 2)]
                    if lf > 1 and n > 3:
                        fulls = [c for c in fulls if c[0] < nleaves(sx) <= c[1]]
                for full in fulls:
                    yield Obligation('C04.pair[%s,%s,lf=%d,full=%s]' % (shape_name(sx), shape_name(sy), lf, full), 'h_pair',
                                     dict(sx=sx, sy=sy, lb=1, lf=lf, full=full), cost=n * n * lf)
            if n <= 3:
                yield Obligation('C04.pair[%s,%s,lf=1,symbolic keys]' % (shape_name(sx), shape_name(sy)), 'h_pair',
                                 dict(sx=sx, sy=sy, lb=1, lf=1, full=None if n <= 2 else [0, n - 1], symkeys=True), cost=n * n * 3)
    for schema, ks in (('<B', (1, 2, 3, 4)), ('>Bx', (1, 2, 3))):
        for k in ks:
            for sb in (['a'] if q else shapes_upto(2)):
                yield Obligation('C04.schema[%s%d,B=%s]' % (schema, k, shape_name(sb)), 'h_schema', dict(schema=schema, k=k, sb=sb, lf=1), cost=40)
    for schema in ('>', '<'):
        for sb in ((('a', 'a'), 'a'), ('a', ('a', 'a'))):
            for focus in range(3):
                yield Obligation('C04.schema-deep[%s,B=%s,focus leaf %d]' % (schema, shape_name(sb), focus), 'h_schema_deep', dict(schema=schema, sb=sb, focus=focus), cost=30)
    nroots = 16
    pairs = [(0, 0), (0, 1), (2, 3), (5, 2), (15, 15), (1, 14)] if q else [(i, j) for i in range(nroots) for j in range(nroots) if (i * 7 + j) % 5 == 0]
    for i, j in pairs:
        for perturb in ('none', 'x', 'y'):
            yield Obligation('C04.roots[%d,%d,%s]' % (i, j, perturb), 'h_roots', dict(i=i, j=j, perturb=perturb), cost=2)
    for nargs in (0, 1, 2, 3):
        for ks in (0, 1):
            for ntargets in (1, 2):
                yield Obligation('C04.unary[nargs=%d,keys=%s,targets=%d]' % (nargs, '/'.join(KEYSETS[ks]), ntargets), 'h_unary',
                                 dict(nargs=nargs, ks=ks, lmod=3, ntargets=ntargets), cost=3)
    for idx in range(n_shipped_unary()):
        yield Obligation('C04.unary-shipped[%d]' % idx, 'h_unary_shipped', dict(idx=idx), cost=1)
