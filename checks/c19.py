"""C19 — whatever the parser can return can be rendered in every offered format."""
from lib.framework import Obligation
from lib import env, trees, ground
from lib.trees import TreeBuilder, SHAPES, shape_name, nleaves, EN_LABELS, JA_LABELS
from engines.pysym.explore import TOKEN
from engines.pysym.core import sym_str
from checks.c18 import FORMATS

FUNCTIONS = ['depccg.printer.to_string and every formatter behind it', 'depccg.grammar.en/ja.apply_binary_rules/apply_unary_rules (derivations are built by the real rule functions)',
             'depccg.parsing.pyx: the failure placeholder exactly as run() builds it (Tree.make_terminal("FAILED", NP), -inf)']
BOUNDS = {
    'quick': 'derivations of 1-3 leaves built by the real rule functions over a 6-category lexicon per language and the shipped unary tables (every choice a fork); every label of both grammars\' vocabularies on a synthetic tree; the placeholder alone and in batches of 2-3 sentences in every position; every format of the CLI choice list of the language except ccg2lambda/jigg_xml_ccg2lambda; one symbolic token word (1 code point)',
    'thorough': 'lexicon of 10 categories, batches of 3',
}
OUTSIDE = 'ccg2lambda / jigg_xml_ccg2lambda (need nltk); derivations with more than 3 leaves'
ASSUMPTIONS = ['lxml.etree and json.dumps are replaced by pure-Python stand-ins in symbolic runs', 'the label vocabulary is the union of the labels in the rule functions\' source (harvested) and those reached by the generated derivations']

LEX = {
    'en': ['NP', 'N', '(S[dcl]\\NP)/NP', 'NP[nb]/N', 'S[dcl]\\NP', ',', 'conj', '(S\\NP)\\(S\\NP)', 'N/N', '.'],
    'ja': ['NP[case=nc,mod=nm,fin=f]', 'NP[case=ga,mod=nm,fin=f]\\NP[case=nc,mod=nm,fin=f]', 'S[mod=nm,form=base,fin=f]\\NP[case=ga,mod=nm,fin=f]',
           'S[mod=adn,form=base,fin=f]\\NP[case=ga,mod=nm,fin=f]', 'S[mod=nm,form=base,fin=t]\\S[mod=nm,form=base,fin=f]', 'S[mod=adv,form=cont,fin=f]',
           'S[mod=nm,form=base,fin=f]', 'NP[case=nc,mod=X1,fin=X2]/NP[case=nc,mod=X1,fin=X2]'],
}


SPECIAL_EN = [',', 'S[ng]\\NP', 'S[dcl]/S[dcl]', 'conj', 'NP\\NP', 'LRB', 'S[dcl]', 'S[em]\\S[em]', ';', 'S[pss]\\NP']


def unary_table(lang):
    from depccg.cat import Category
    rules = ground.load_jsonnet(ground.MODELS + '/unary_rules.%s.jsonnet' % lang)['unary_rules']
    t = {}
    for l, r in rules:
        t.setdefault(Category.parse(l), []).append(Category.parse(r))
    return t


def placeholder():
    from depccg.tree import Tree, ScoredTree
    from depccg.cat import Category
    return [ScoredTree(tree=Tree.make_terminal("FAILED", Category.parse("NP")), score=-float('inf'))]


def render_all(lang, results, must_contain=()):
    from depccg.printer import to_string
    from depccg.lang import set_global_language_to
    set_global_language_to(lang)
    order = list(FORMATS[lang]) + list(reversed(FORMATS[lang]))      # every format, then again in the opposite order on the same objects
    for f in order:
        try:
            out = to_string(results, format=f)
        except Exception as e:
            return ('render-raises.%s:%s' % (f, type(e).__name__), sym_str(e) if not isinstance(e, KeyError) else repr(e))
        for marker, fmts in must_contain:
            if f in fmts and marker not in out:
                return ('sentence-missing-from-output.%s' % f, marker)
    return True


def token(lang, word):
    from depccg.types import Token
    if lang == 'en':
        return Token(word=word, lemma='lm', pos='NN', entity='O', chunk='I-NP')
    return Token(word=word, surf=word, base='bs', pos='名詞', pos1='一般', pos2='*', pos3='*', inflectionForm='*', inflectionType='*', reading='r')


def gen_derivation(d, lang, n, nlex, tokfn=None):
    """a derivation licensed by the real grammar: leaves by forks over the lexicon, rule results and unary steps by forks.
    Returns a Tree or None when the chosen categories do not combine."""
    from depccg.cat import Category
    from depccg.tree import Tree
    from depccg.grammar import en, ja
    g = en if lang == 'en' else ja
    ut = unary_table(lang)
    lex = [Category.parse(c) for c in (SPECIAL_EN if nlex == 'special' else (nlex if isinstance(nlex, (list, tuple)) else LEX[lang][:nlex]))]
    nodes = []
    for i in range(n):
        c = d.pick('lex%d' % i, lex)
        if tokfn is not None:
            tk = tokfn(d, i)
        else:
            tk = token(lang, d.string('word', 1, TOKEN) if i == 0 else 'w%d' % i)
        t = Tree.make_terminal(tk, c)
        us = g.apply_unary_rules(c, ut)
        if us:
            k = d.choice('un%d' % i, len(us) + 1)
            if k:
                r = us[k - 1]
                t = Tree.make_unary(r.cat, t, r.op_string, r.op_symbol)
        nodes.append(t)
    order = d.choice('bracketing', 2) if n == 3 else 0
    while len(nodes) > 1:
        i = 0 if (order == 0 or len(nodes) == 2) else 1
        l, r = nodes[i], nodes[i + 1]
        rs = g.apply_binary_rules(l.cat, r.cat)
        if not rs:
            return None      # not a derivation
        res = rs[d.choice('rule%d' % len(nodes), len(rs))]
        t = Tree.make_binary(res.cat, l, r, res.op_string, res.op_symbol, res.head_is_left)
        if len(nodes) > 2:
            us = g.apply_unary_rules(res.cat, ut)
            if us and d.boolean('unode%d' % len(nodes)):
                t = Tree.make_unary(us[0].cat, t, us[0].op_string, us[0].op_symbol)
        nodes[i:i + 2] = [t]
    return nodes[0]


def h_derivation(d, lang, n, nlex, with_failed, nbest=1):
    from depccg.tree import ScoredTree
    t = gen_derivation(d, lang, n, nlex)
    if t is None:
        return True
    results = [[ScoredTree(t, -2.5)]]
    if nbest > 1:       # an n-best list: a second derivation of the same sentence (same token objects, independent choices)
        from engines.pysym.explore import Prefixed
        toks = [l.children[0] for l in t.leaves]
        t2 = gen_derivation(Prefixed(d, 'second.'), lang, n, nlex, lambda dd, i: toks[i])
        if t2 is None:
            return True
        results = [[ScoredTree(t, -2.5), ScoredTree(t2, -3.5)], [ScoredTree(t, -1.0)]]
    if with_failed:
        results = [placeholder()] + results + [placeholder()]
    return render_all(lang, results)


_PAIRS = {}


def label_examples(lang):
    """for every (op_string, op_symbol) the real rule functions return over a pool of shipped categories: one licensed example"""
    if lang in _PAIRS:
        return _PAIRS[lang]
    import os
    from engines.pysym import hook
    from depccg.cat import Category
    from depccg.grammar import en, ja
    g = en if lang == 'en' else ja
    f = os.path.join(hook.REPO, 'tests', 'cats.txt' if lang == 'en' else 'cats.ja.txt')
    pool = [l.strip().split()[0] for l in open(f, encoding='utf-8') if l.strip()]
    pool = sorted(set(pool), key=lambda t: (len(t), t))[:(90 if lang == 'en' else 70)]
    A, B, N, O = 'S[mod=nm,form=base,fin=f]', 'S[mod=nm,form=cont,fin=f]', 'NP[case=ga,mod=nm,fin=f]', 'NP[case=o,mod=nm,fin=f]'
    extra_ja = ['%s\\%s' % (A, B), '%s/%s' % (A, B), '(%s\\%s)\\%s' % (B, N, O), '((%s\\%s)\\%s)\\%s' % (B, N, O, N), '(((%s\\%s)\\%s)\\%s)\\%s' % (B, N, O, N, O)]
    pool += ['(S/NP)/NP', '(S\\NP)\\S', 'S\\(S/NP)', 'LRB', 'conj', ';', 'S[em]\\S[em]', 'S[dcl]/S[dcl]', 'S[ng]\\NP'] if lang == 'en' else extra_ja
    cats = []
    for t in pool:
        try:
            cats.append(Category.parse(t))
        except Exception:
            pass
    found = {}
    for x in cats:
        for y in cats:
            for r in g.apply_binary_rules(x, y):
                found.setdefault(('binary', r.op_string, r.op_symbol), (x, y, r))
    ut = unary_table(lang)
    if lang == 'ja':
        # left-hand sides the shipped table does not contain but a configured table may: two missing arguments (ADV2), no adn/adv (OTHER)
        tgt = Category.parse('S[mod=X1,form=X2,fin=X3]/S[mod=X1,form=X2,fin=X3]')
        ut[Category.parse('(S[mod=adv,form=cont,fin=f]\\%s)\\%s' % (N, O))] = [tgt]
        ut[Category.parse(A)] = [tgt]
    for x in ut:
        for r in g.apply_unary_rules(x, ut):
            found.setdefault(('unary', r.op_string, r.op_symbol), (x, None, r))
    _PAIRS[lang] = found
    return found


def h_label(d, lang, key):
    """a licensed derivation step carrying the given label, inside a small tree"""
    from depccg.tree import Tree, ScoredTree
    key = tuple(key)
    x, y, r = label_examples(lang)[key]
    w = d.string('word', 1, TOKEN)
    if y is None:
        t = Tree.make_unary(r.cat, Tree.make_terminal(token(lang, w), x), r.op_string, r.op_symbol)
    else:
        t = Tree.make_binary(r.cat, Tree.make_terminal(token(lang, w), x), Tree.make_terminal(token(lang, 'w1'), y), r.op_string, r.op_symbol, r.head_is_left)
    return render_all(lang, [[ScoredTree(t, -1.0)]])


def labels(lang):
    """label vocabulary: (op_string, op_symbol) pairs written in the grammar source + the unary labels"""
    import ast
    import os
    from engines.pysym import hook
    src = open(os.path.join(hook.REPO, 'depccg', 'grammar', lang + '.py'), encoding='utf-8').read()
    pairs = {'binary': [], 'unary': []}
    for node in ast.walk(ast.parse(src)):
        if isinstance(node, ast.Call) and getattr(node.func, 'id', None) == 'CombinatorResult':
            kw = {k.arg: k.value for k in node.keywords}
            a, b = kw.get('op_string'), kw.get('op_symbol')
            if isinstance(a, ast.Constant) and isinstance(b, ast.Constant):
                if (a.value, b.value) not in pairs['binary']:
                    pairs['binary'].append((a.value, b.value))
    if lang == 'en':
        pairs['unary'] = [('lex', '<un>'), ('tr', '<un>')]
        pairs['binary'] = [p for p in pairs['binary'] if p[1] != '<un>']
    else:
        strs = sorted({n.value for n in ast.walk(ast.parse(src)) if isinstance(n, ast.Constant) and isinstance(n.value, str)
                       and (n.value.startswith('AD') or n.value == 'OTHER')})
        pairs['unary'] = [(s, s) for s in strs]
    return pairs


def h_placeholder(d, lang, pos, size):
    """the failure placeholder in a batch: every format renders, and the parsed sentences of the batch appear in the output"""
    from depccg.tree import ScoredTree
    results = []
    markers = []
    for i in range(size):
        if i == pos:
            results.append(placeholder())
        else:
            w = 'tok%dq' % i
            tb = TreeBuilder(d, lang, word=lambda dd, name, j, w=w: w if j == 0 else 'w%d' % j, heads=(lang == 'en'), prefix='s%d' % i)
            results.append([ScoredTree(tb.build(('B', 'L', 'L')), -1.0)])
            markers.append((w, [f for f in FORMATS[lang]]))
    return render_all(lang, results, markers)


def obligations(tier):
    q = tier == 'quick'
    for lang in ('en', 'ja'):
        for n in (1, 2, 3):
            nlex = (6 if n < 3 else 5) if q else (10 if lang == 'en' else 8)
            nlex = min(nlex, len(LEX[lang]))
            yield Obligation('C19.derivation[%s,n=%d,lexicon=%d]' % (lang, n, nlex), 'h_derivation', dict(lang=lang, n=n, nlex=nlex, with_failed=False), cost=n * n * 10, max_seconds=600)
        yield Obligation('C19.derivation[%s,n=2,with failed sentences]' % lang, 'h_derivation', dict(lang=lang, n=2, nlex=4, with_failed=True), cost=20)
        for n in (1, 2):
            yield Obligation('C19.derivation[%s,n=%d,lexicon=%d,2-best list + another sentence]' % (lang, n, 4 if n == 1 else 3), 'h_derivation', dict(lang=lang, n=n, nlex=(4 if n == 1 else 3), with_failed=(n == 1), nbest=2), cost=40)
        for key in sorted(label_examples(lang)):
            yield Obligation('C19.label[%s,%s]' % (lang, '/'.join(key)), 'h_label', dict(lang=lang, key=list(key)), cost=2)
        for size in (1, 2, 3):
            for pos in range(size):
                yield Obligation('C19.placeholder[%s,batch=%d,failed at %d]' % (lang, size, pos), 'h_placeholder', dict(lang=lang, pos=pos, size=size), cost=2)


def ground_stage():
    """what the real parser returns (native build of parsing.h behind the translated parsing.pyx) for sentences that parse, that have a
    spanning analysis but no allowed root, that have no analysis at all, that are too long or run out of steps - rendered by every
    format: the statement's "whatever the parser can return" taken from the parser itself rather than from its description"""
    from lib import native, search as S
    bn = native.Build()
    bad, info = [], dict(native_batches=0, formats={})
    try:
        g = S.G8()          # (A B) -> X is not a root; X has a unary rule into the root set, which may not apply at the root of a 2-word sentence
        # labels from the real grammars' vocabularies (the printers key tables on them)
        LAB = dict(en=dict(binary='fa|>', unary='tr|<un>'), ja=dict(binary='ba|<', unary='ADNext|ADNext'))
        cfg = dict(unary_penalty=0.1, beta=0.5, use_beta=False, pruning_size=1, nbest=1, max_step=100000)      # one admitted tag per word: 'A B' has the spanning analysis X only
        ok1 = dict(tag=[[0, -9]], dep=[[0, -1]])                                   # one word A: unary v into the root set
        ok2 = dict(tag=[[0, -9], [0, -9]], dep=[[0, -1, -1], [-1, 0, -1]])          # A A -> 4 (root)
        span_no_root = dict(tag=[[0, -9], [-9, 0]], dep=[[0, -1, -1], [-1, 0, -1]])  # A B -> X only: spanning analysis, no root
        nothing = dict(tag=[[-9, 0], [-9, 0]], dep=[[0, -1, -1], [-1, 0, -1]])       # B B: no rule at all
        long3 = dict(tag=[[0, -9]] * 3, dep=[[0, -1, -1, -1]] * 3)
        jobs = []
        for lang in ('en', 'ja'):
            fm = list(FORMATS[lang])
            for sents, extra in (([ok2, span_no_root, ok1], {}), ([span_no_root], {}), ([nothing, ok2], {}), ([ok2, long3], dict(max_length=2)), ([ok2, ok2], dict(max_step=1)),
                                 ([ok2, span_no_root], dict(nbest=2))):
                base = dict(ncats=g['ncats'], T=g['T'], roots=g['roots'], binary=[(x, y, c, h, LAB[lang]['binary']) for x, y, c, h, _ in g['binary']],
                            unary=[(x, c, LAB[lang]['unary']) for x, c, _ in g['unary']])
                jobs.append(dict(base, sentences=sents, config=dict(cfg, **extra), render=fm, lang=lang))
        res = bn.run(jobs, timeout=600)
        info['native_batches'] = len(jobs)
        for job, r in zip(jobs, res):
            if r.get('error'):
                bad.append(('native.run-raises', dict(error=r['error'][:300], lang=job['lang'])))
                continue
            for f, e in sorted(r.get('render_errors', {}).items()):
                info['formats'][f] = info['formats'].get(f, 0) + 1
                bad.append(('native.render-raises.%s' % f, dict(lang=job['lang'], error=e, result_list_lengths=r.get('result_list_lengths'), sentences=len(job['sentences']), config=job['config'])))
            if any(n == 0 for n in r.get('result_list_lengths', [])):
                bad.append(('native.empty-result-list', dict(lang=job['lang'], result_list_lengths=r.get('result_list_lengths'))))
    finally:
        bn.close()
    # one finding per (format, kind) is enough
    seen, out = set(), []
    for k, v in bad:
        if (k, v.get('lang')) not in seen:
            seen.add((k, v.get('lang')))
            out.append((k, v))
    return dict(native_render=info), out

