"""C08 — AUTO text written by depccg reads back to the same tree."""
from lib.framework import Obligation
from lib import env, trees
from lib.trees import TreeBuilder, SHAPES, shape_name, nleaves
from engines.pysym import hook
from engines.pysym.explore import TOKEN, Alpha
from engines.pysym.core import sym_str, sjoin

FUNCTIONS = ['depccg.printer.auto.auto_of', 'depccg.printer.conll.conll_of/_resolve_dependencies', 'depccg.utils.denormalize/normalize',
             'depccg.tools.reader.read_auto/_AutoLineReader (open stubbed to yield the printed lines)', 'depccg.cat.Category.parse/__str__', 'depccg.tree.Tree']
BOUNDS = {
    'quick': 'trees of <= 3 leaves incl. unary nodes, either head direction at each binary node (symbolic); one leaf at a time carries a symbolic word and pos of 1-3 code points over printable non-blank text without backslash (others fixed); plus literal-extended tokens: sym(<=1) + literal + sym(<=1) for every string constant of reader.py/auto.py/utils.py/conll.py without blank or backslash',
    'thorough': 'trees of <= 4 leaves, two leaves symbolic at a time, tokens up to 3 code points',
}
OUTSIDE = 'tokens longer than the bound; tokens containing blanks or backslashes (excluded by the statement); categories outside the shipped-style inventory used for node/leaf categories'
ASSUMPTIONS = ['token alphabet: printable, non-blank: 0x21-0x7E, 0xA1-0xFF without 0xAD, kana, CJK, one astral block; minus backslash',
               'categories are concrete (shipped-style English categories); file reading is replaced by an iterator over the printed lines in symbolic runs (replays use real files)']

AL = TOKEN.minus('\\', 'token-no-backslash')


def literals():
    lits = hook.harvest_files(['depccg/tools/reader.py', 'depccg/printer/auto.py', 'depccg/utils.py', 'depccg/printer/conll.py'])
    out = []
    for t in lits:
        if 0 < len(t) <= 16 and all(AL.ok(ord(c)) for c in t):
            out.append(t)
    return sorted(set(out))


def _word(focus, n, lit, pre, post):
    def f(d, name, i):
        if i not in focus:
            return 'w%d' % i
        if lit is None:
            return d.string(name, n, AL)
        return d.string(name + '.pre', pre, AL) + lit + d.string(name + '.post', post, AL)
    return f


def _pos(focus, n):
    def f(d, name, i):
        if i not in focus:
            return 'P%d' % i
        return d.string(name, n, AL)
    return f


LICENSED = {     # category triples the active grammar derives (a reader may consult the grammar; the head flag of the file must survive)
    ('en', 'B(L,L)'): dict(leaf=['NP', 'S[dcl]\\NP'], node=['S[dcl]']),
    ('en', 'B(L,B(L,L))'): dict(leaf=['NP', '(S[dcl]\\NP)/NP', 'NP'], node=['S[dcl]', 'S[dcl]\\NP']),
    ('en', 'B(B(L,L),L)'): dict(leaf=['NP[nb]/N', 'N', 'S[dcl]\\NP'], node=['S[dcl]', 'NP']),
    ('ja', 'B(L,L)'): dict(leaf=['NP[case=ga,mod=nm,fin=f]', 'S[mod=nm,form=base,fin=f]\\NP[case=ga,mod=nm,fin=f]'], node=['S[mod=nm,form=base,fin=f]']),
}


def h_auto(d, shape, focus, n, npos, lit=None, pre=0, post=0, conj_cats=False, licensed=None):
    from depccg.printer.auto import auto_of
    from depccg.printer.conll import conll_of
    from depccg.tools import reader
    from depccg.utils import denormalize
    env.install_open(reader)
    cats = dict(leaf=['NP[conj]', 'S[dcl]/NP[conj]', 'N[conj]', 'NP'], node=['NP[conj]', 'S[dcl]', '(S\\NP)\\NP[conj]']) if conj_cats else None
    from depccg.lang import set_global_language_to
    set_global_language_to(licensed or 'en')
    if licensed:
        cats = LICENSED[(licensed, shape_name(shape))]
    tb = TreeBuilder(d, 'en', word=_word(focus, n, lit, pre, post), attrs=dict(pos=_pos(focus, npos)) if npos else {}, heads='sym', cats=cats)
    t = tb.build(shape)
    line = auto_of(t)
    f = env.write_file('c08.auto', ['ID=1, log probability=-1.00000000', line])
    try:
        res = list(reader.read_auto(f))
    except Exception as e:
        return ('read-raises:' + type(e).__name__, sym_str(line))
    if len(res) != 1:
        return ('read-count', len(res))
    t2, toks = res[0].tree, res[0].tokens
    why = trees.same_structure(t, t2, heads=True)
    if why:
        return ('tree-differs.' + why, sym_str(line))
    l1, l2 = t.leaves, t2.leaves
    if len(l1) != len(l2) or len(toks) != len(l1):
        return ('leaf-count',)
    for a, b, tk in zip(l1, l2, toks):
        if b.token['word'] != denormalize(a.token['word']):
            return ('word-differs', sym_str(a.token['word']), sym_str(b.token['word']))
        if b.token['pos'] != a.token.get('pos', 'POS'):
            return ('pos-differs', sym_str(a.token.get('pos')), sym_str(b.token['pos']))
        if tk is not b.token and tk['word'] != b.token['word']:
            return ('token-list-differs',)
    if auto_of(t2) != line:
        return ('reprint-differs', sym_str(line), sym_str(auto_of(t2)))
    # conll: fragments of the last column concatenate to the same line
    frags = [row.split('\t')[-1] for row in conll_of(t).split('\n')]
    if sjoin(' ', frags) != line:
        return ('conll-fragments-differ', sym_str(sjoin(' ', frags)), sym_str(line))
    return True


def obligations(tier):
    q = tier == 'quick'
    shapes = [s for k in ((1, 2, 3) if q else (1, 2, 3, 4)) for s in SHAPES[k]]
    for s in shapes:
        nl = nleaves(s)
        for i in range(nl):
            for n, npos in ((1, 1), (2, 0), (3, 0), (1, 2)) if q else ((1, 1), (2, 2), (3, 1), (1, 3)):
                if nl > 2 and n > 2 and q:
                    continue
                yield Obligation('C08.auto[%s,leaf=%d,word=%d,pos=%d]' % (shape_name(s), i, n, npos), 'h_auto', dict(shape=s, focus=[i], n=n, npos=npos), cost=n * 3 + npos)
        if not q and nl >= 2:
            yield Obligation('C08.auto[%s,leaves=0+1,word=2]' % shape_name(s), 'h_auto', dict(shape=s, focus=[0, 1], n=2, npos=0), cost=12)
    for s in [SHAPES[1][0], SHAPES[2][0], SHAPES[2][1], SHAPES[3][0]]:
        yield Obligation('C08.auto[%s,categories ending in [conj],word=1]' % shape_name(s), 'h_auto', dict(shape=s, focus=[0], n=1, npos=0, conj_cats=True), cost=3)
    for (lang, sn) in LICENSED:
        s = [x for k in (2, 3) for x in SHAPES[k] if shape_name(x) == sn][0]
        yield Obligation('C08.auto[%s,%s grammar derives every node,word=1]' % (sn, lang), 'h_auto', dict(shape=s, focus=[0], n=1, npos=0, licensed=lang), cost=3)
    lits = literals()
    for lit in lits:
        for pre, post in ((0, 0), (1, 0), (0, 1)) + (() if q else ((1, 1),)):
            for s, i in ((SHAPES[2][0], 0), (SHAPES[2][0], 1)) if q else ((SHAPES[2][0], 0), (SHAPES[2][0], 1), (SHAPES[1][0], 0), (SHAPES[3][0], 1)):
                yield Obligation('C08.auto-literal[%s,leaf=%d,%d+%r+%d]' % (shape_name(s), i, pre, lit, post), 'h_auto',
                                 dict(shape=s, focus=[i], n=0, npos=0, lit=lit, pre=pre, post=post), cost=pre + post + 1)
