"""C03 — English combinatory rules are sound (depccg/grammar/en.py, unification.py, cat.py)."""
import os
from lib.framework import Obligation
from lib import catgen
from lib.catgen import Builder, shapes_upto, shape_name, CATCHAR, FEATCHAR, PLAIN, nleaves
from engines.pysym import hook
from engines.pysym.core import sym_str
from oracles import schemata_en as S

FUNCTIONS = ['depccg.grammar.en.apply_binary_rules and all 13 combinators', 'depccg.grammar.en._is_punct/_is_modifier/_is_type_raised',
             'depccg.unification.Unification.__init__/__call__/__getitem__', 'depccg.cat (parse of patterns, __eq__, __xor__, __str__, clear_features, unifies)']
BOUNDS = {
    'quick': 'ordered pairs of categories: every shape pair with <= 3 leaves each, all atom/feature strings symbolic (uniform lengths 1/1 and 2/2, feature present or absent per leaf), slashes symbolic in {/,\\}; plus every pair of category literals harvested from en.py used as templates (same shape and string lengths, every character symbolic)',
    'thorough': 'shape pairs with <= 4 leaves each; schema-instantiated pairs up to 6 leaves; literal templates; lengths 1/1, 2/2, 1/2, 2/1, 3/1',
}
OUTSIDE = 'categories with more leaves/longer strings; the | slash in inputs (covered at the matcher level by C06); Japanese-style features'
ASSUMPTIONS = ['inputs are well-formed English categories: atoms/features without delimiters, blanks or ",", slashes / and \\',
               'reading: S[dcl] + S[em]\\S[em] -> S[dcl] and the two <*> rules are "listed" rules; the NP\\NP clause of conjunction and the exclusion of punctuation/type-raised conjuncts are not demanded; "never composes over a bare N or NP" is demanded when both matched parts are bare',
               'all but at most two leaves per pair range over the plain alphabet (letters/digits/non-ASCII); the focus leaves over every printable non-delimiter character']


def _check(x, y):
    from depccg.grammar import en
    try:
        results = en.apply_binary_rules(x, y)
    except Exception as e:
        return ('raises:' + type(e).__name__, sym_str(x), sym_str(y))
    xs, ys = S.clear_nb(x), S.clear_nb(y)
    for r in results:
        why = S.justified(r, xs, ys)
        if why is not None:
            return ('unsound.' + why, sym_str(x), sym_str(y), sym_str(r.cat), r.op_string)
        if r.op_string in ('fa', 'ba', 'fc', 'bx', 'gfc', 'gbx', 'conj') and not S.features_from_inputs(r.cat, (xs, ys)):
            return ('unsound.feature-not-from-inputs.' + r.op_string, sym_str(x), sym_str(y), sym_str(r.cat))
    miss = S.converse(results, xs, ys)
    if miss:
        return ('incomplete.' + miss[0], sym_str(x), sym_str(y), [(r.op_string, sym_str(r.cat)) for r in results])
    return True


def h_pair(d, sx, sy, lb, lf, feat, full, warm=False):
    nx = nleaves(sx)
    fx = None if full is None else {i for i in full if i < nx}
    fy = None if full is None else {i - nx for i in full if i >= nx}
    x = Builder(d, 'x', lb=lb, lf=lf, feat=feat, full=fx).build(sx)
    y = Builder(d, 'y', lb=lb, lf=lf, feat=feat, full=fy).build(sy)
    if warm:
        # the process has answered the feature-erased twin of the pair before (every result must still be justified by ITS inputs)
        from depccg.grammar import en
        try:
            en.apply_binary_rules(x.clear_features('X', 'nb'), y.clear_features('X', 'nb'))
        except Exception as e:
            return ('raises:' + type(e).__name__, sym_str(x), sym_str(y))
    return _check(x, y)


def template(d, name, text, full):
    """a category with the shape and string lengths of the literal `text`, every character symbolic"""
    from depccg.cat import Category, Atom, Functor, UnaryFeature
    lit = Category.parse(text)
    n = [0]

    def rec(c):
        if c.is_functor:
            l = rec(c.left)
            s = d.char_in('%s.s%d' % (name, n[0]), '/\\')
            n[0] += 1
            return Functor(l, s, rec(c.right))
        k = n[0]
        n[0] += 1
        al = CATCHAR if full else PLAIN
        base = d.string('%s.b%d' % (name, k), len(c.base), al)
        v = c.feature.value
        f = UnaryFeature() if v is None else UnaryFeature(d.string('%s.f%d' % (name, k), len(v), FEATCHAR if full else PLAIN))
        return Atom(base, f)
    return rec(lit)


def h_literals(d, lx, ly):
    x = template(d, 'x', lx, True)
    y = template(d, 'y', ly, True)
    return _check(x, y)


def h_schema(d, schema, sa, sb, sc, sd, lb, lf):
    """inputs instantiating a schema's premises: the shared part B occurs in both with independent strings"""
    from depccg.cat import Functor

    def mk(name, shape):
        return Builder(d, name, lb=lb, lf=lf, feat='mixed', full=set()).build(shape)
    A, B1, B2 = mk('A', sa), mk('B1', sb), mk('B2', sb)
    if schema == 'fa':
        x, y = Functor(A, '/', B1), B2
    elif schema == 'ba':
        x, y = B1, Functor(A, '\\', B2)
    elif schema == 'fc':
        x, y = Functor(A, '/', B1), Functor(B2, '/', mk('C', sc))
    elif schema == 'bx':
        x, y = Functor(B1, '/', mk('C', sc)), Functor(A, '\\', B2)
    elif schema == 'gfc':
        x, y = Functor(A, '/', B1), Functor(Functor(B2, '/', mk('C', sc)), d.char_in('w', '/\\'), mk('D', sd))
    elif schema == 'gbx':
        x, y = Functor(Functor(B1, '/', mk('C', sc)), d.char_in('w', '/\\'), mk('D', sd)), Functor(A, '\\', B2)
    else:
        raise ValueError(schema)
    return _check(x, y)


def h_schema_deep(d, schema, sb):
    """the consumed argument B is a sub-category of 3-4 leaves (an argument that is itself a functor); every leaf of B carries a
    symbolic feature on both sides, the rest none: clashes at any leaf of B must block the rule"""
    from depccg.cat import Functor
    nb = nleaves(sb)

    def mk(name, shape, mode):
        # slashes inside B are fixed (the same on both sides): the subject here is the feature comparison at every leaf of B
        return Builder(d, name, lb=1, lf=1, feat='mixed', full=set(), fmodes=[mode] * nleaves(shape), smodes=['\\', '/', '\\'][:max(0, nleaves(shape) - 1)]).build(shape)
    A, B1, B2, C = mk('A', 'a', 'n'), mk('B1', sb, 'u'), mk('B2', sb, 'u'), mk('C', 'a', 'n')
    if schema == 'fa':
        x, y = Functor(A, '/', B1), B2
    elif schema == 'ba':
        x, y = B1, Functor(A, '\\', B2)
    elif schema == 'fc':
        x, y = Functor(A, '/', B1), Functor(B2, '/', C)
    elif schema == 'bx':
        x, y = Functor(B1, '/', C), Functor(A, '\\', B2)
    else:
        raise ValueError(schema)
    return _check(x, y)


def literal_categories():
    from depccg.cat import Category
    lits = hook.harvest_files(['depccg/grammar/en.py'])
    out = []
    for t in lits:
        if not t or ' ' in t or len(t) > 20:
            continue
        try:
            c = Category.parse(t)
            if isinstance(c, Category) and (str(c) == t or str(c) == t.replace('(', '').replace(')', '')):
                out.append(t)
        except Exception:
            pass
    return sorted(set(out))


def obligations(tier):
    q = tier == 'quick'
    L = 3 if q else 4
    lens = [(1, 1), (2, 2)] if q else [(1, 1), (2, 2), (1, 2), (2, 1), (3, 1)]
    sh = shapes_upto(L)
    import itertools
    for sx in sh:
        for sy in sh:
            n = nleaves(sx) + nleaves(sy)
            for lb, lf in lens:
                first = (lb, lf) == lens[0]
                # focus leaves (full alphabet): all when small, else single leaves / none
                if n <= 3:
                    fulls = [None]
                elif q:
                    if n == 4:
                        fulls = [[i] for i in range(n)] if first else [[]]
                    elif n == 5:
                        fulls = [[]] if first else []
                    else:
                        fulls = []
                else:
                    if n == 4:
                        fulls = [list(c) for c in itertools.combinations(range(n), 2)] if (lb, lf) in lens[:2] else [[]]
                    elif n == 5:
                        fulls = [[i] for i in range(n)] if first else ([[]] if (lb, lf) == lens[1] else [])
                    elif n == 6:
                        fulls = [[i] for i in range(n)] if first else []
                    else:
                        fulls = [[]] if first else []
                for full in fulls:
                    yield Obligation('C03.pair[%s,%s,lb=%d,lf=%d,full=%s]' % (shape_name(sx), shape_name(sy), lb, lf, full), 'h_pair',
                                     dict(sx=sx, sy=sy, lb=lb, lf=lf, feat='mixed', full=full), cost=n * n)
    for sx in shapes_upto(3):
        for sy in shapes_upto(3):
            n = nleaves(sx) + nleaves(sy)
            if 2 <= n <= (4 if q else 5):
                yield Obligation('C03.pair[%s,%s,lb=1,lf=1,asked after its feature-erased twin]' % (shape_name(sx), shape_name(sy)), 'h_pair',
                                 dict(sx=sx, sy=sy, lb=1, lf=1, feat='mixed', full=([] if n > 3 else None), warm=True), cost=n * n)
    lits = literal_categories()
    atoms = [t for t in lits if all(ch not in t for ch in '/\\')]
    for lx in lits:
        for ly in lits:
            if q and lx not in atoms and ly not in atoms and (lx, ly) not in (('S[dcl]', 'S[em]\\S[em]'),):
                continue
            yield Obligation('C03.literals[%s + %s]' % (lx, ly), 'h_literals', dict(lx=lx, ly=ly), cost=len(lx) + len(ly))
    deep = [(('a', 'a'), 'a'), ('a', ('a', 'a'))] + ([] if q else [(('a', ('a', 'a')), 'a'), ('a', (('a', 'a'), 'a')), (('a', 'a'), ('a', 'a'))])
    for schema in ('fa', 'ba', 'fc', 'bx'):
        for sb in deep:
            yield Obligation('C03.schema-deep[%s,B=%s]' % (schema, shape_name(sb)), 'h_schema_deep', dict(schema=schema, sb=sb), cost=40)
    if not q:
        one, two = ['a'], shapes_upto(2)
        for schema in ('fa', 'ba', 'fc', 'bx', 'gfc', 'gbx'):
            for sa in two:
                for sb in two:
                    for sc in (one if schema in ('fa', 'ba') else two):
                        for sd in (one if schema in ('fa', 'ba', 'fc', 'bx') else two):
                            if nleaves(sa) + 2 * nleaves(sb) + nleaves(sc) + nleaves(sd) > 9:
                                continue
                            yield Obligation('C03.schema[%s,A=%s,B=%s,C=%s,D=%s]' % (schema, shape_name(sa), shape_name(sb), shape_name(sc), shape_name(sd)),
                                             'h_schema', dict(schema=schema, sa=sa, sb=sb, sc=sc, sd=sd, lb=1, lf=1), cost=30)
