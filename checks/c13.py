"""C13 — categories behave as values (depccg/cat.py)."""
from lib.framework import Obligation
from lib import catgen
from lib.catgen import Builder, shapes_upto, shapes, shape_name, leaves, ANYCHAR, FEATCHAR, TERNCHAR
from engines.pysym.core import sym_str

FUNCTIONS = ['depccg.cat.Atom.__eq__/__xor__/__str__/clear_features/__hash__(generated)',
             'depccg.cat.Functor.__eq__/__xor__/__str__/clear_features/__hash__(generated)',
             'depccg.cat.UnaryFeature.__eq__/__str__', 'depccg.cat.TernaryFeature.__eq__/__str__', 'depccg.cat.Feature.parse']
BOUNDS = {
    'quick': 'two/three category values, every shape pair with <= 3 leaves each (<= 2 for the 3-value transitivity law), atom/feature strings of 1-2 symbolic code points, unary and three-part features; erase sets of <= 2 names',
    'thorough': 'every shape pair with <= 4 leaves each (<= 3 for transitivity), strings of 1-3 symbolic code points; erase sets of <= 3 names',
}
OUTSIDE = 'categories with more leaves or longer strings than the bound; feature values that mix "=" and "," inside a unary feature (not well-formed feature text); empty feature strings'
ASSUMPTIONS = ['strings range over printable ASCII incl. blank and delimiters, Latin-1, kana, CJK (the alphabet does not matter to these value laws)',
               'hash law: decided per path on a solver-chosen witness with the real generated __hash__ (hashes are not symbolic), plus set/dict lookup of the witness']


def ref_eq(x, y):
    """structural equality written from the statement (independent of cat.py's __eq__)"""
    C = catgen.cats()
    if isinstance(x, C.Functor) != isinstance(y, C.Functor):
        return False
    if isinstance(x, C.Functor):
        return ref_eq(x.left, y.left) and x.slash == y.slash and ref_eq(x.right, y.right)
    return x.base == y.base and ref_feq(x.feature, y.feature)


def ref_feq(f, g):
    C = catgen.cats()
    if type(f) is not type(g):
        return False
    if isinstance(f, C.UnaryFeature):
        if f.value is None or g.value is None:
            return f.value is None and g.value is None
        return f.value == g.value
    return all(a[0] == b[0] and a[1] == b[1] for a, b in zip((f.kv1, f.kv2, f.kv3), (g.kv1, g.kv2, g.kv3)))


def ref_blind(x, y):
    if x.is_functor != y.is_functor:
        return False
    if x.is_functor:
        return ref_blind(x.left, y.left) and x.slash == y.slash and ref_blind(x.right, y.right)
    return x.base == y.base


def _mk(d, name, shape, lb, lf, feat):
    return Builder(d, name, lb=lb, lf=lf, feat=feat, base_alpha=ANYCHAR, feat_alpha=ANYCHAR.minus(','),
                   tern_alpha=ANYCHAR.minus(',='), slashes='/\\|').build(shape)


def h_eq(d, sx, sy, lb, lf, feat):
    x = _mk(d, 'x', sx, lb, lf, feat)
    y = _mk(d, 'y', sy, lb, lf, feat)
    r = (x == y)
    if not isinstance(r, bool):
        return ('eq.not-bool', type(r).__name__)
    if (y == x) != r:
        return ('eq.asymmetric',)
    if (x != y) == r:
        return ('eq.ne-inconsistent',)
    ref = ref_eq(x, y)
    if r != ref:
        return ('eq.differs-from-structural-equality', r, ref, sym_str(x), sym_str(y))
    if not (x == x):
        return ('eq.irreflexive',)
    if r:
        if not (x ^ y):
            return ('xor.not-implied-by-eq',)
        # equal values must hash equally and be found in hashed containers: real hash on the solver's witness
        w = d.witness()
        cx, cy = _mk(w, 'x', sx, lb, lf, feat), _mk(w, 'y', sy, lb, lf, feat)
        if cx != cy:
            return ('eq.witness-not-equal',)
        if hash(cx) != hash(cy):
            return ('hash.differs-for-equal', str(cx))
        if cy not in {cx} or {cx: 1}.get(cy) != 1 or (cx, cy) not in {(cy, cx)}:
            return ('hash.container-lookup-fails', str(cx))
    return True


def h_eq_shared(d, sx, lb, lf, feat, depth):
    """y re-uses x's own sub-objects (atoms / whole sub-categories / features) below `depth`, with fresh symbolic slashes and
    bases above: equality must still be decided by structure, slashes, atoms and features alone"""
    C = catgen.cats()
    x = _mk(d, 'x', sx, lb, lf, feat)
    n = [0]

    def rebuild(c, level):
        n[0] += 1
        if level >= depth:
            return c                                  # the very same object
        if c.is_functor:
            l = rebuild(c.left, level + 1)
            sl = d.char_in('y.s%d' % n[0], '/\\|')
            return C.Functor(l, sl, rebuild(c.right, level + 1))
        return C.Atom(d.string('y.b%d' % n[0], lb, ANYCHAR), c.feature)   # shares the feature object
    y = rebuild(x, 0)
    r = (x == y)
    ref = ref_eq(x, y)
    if r != ref or (y == x) != ref:
        return ('eq.differs-from-structural-equality.shared-subobjects', r, ref, sym_str(x), sym_str(y))
    if (x != y) == ref:
        return ('eq.ne-inconsistent.shared-subobjects',)
    if r and hash(x) != hash(y):
        return ('hash.differs-for-equal.shared-subobjects',)
    if (x ^ y) != ref_blind(x, y):
        return ('xor.differs-from-feature-blind-equality.shared-subobjects',)
    return True


def h_str(d, sx, lb, lf, feat, delta):
    x = _mk(d, 'x', sx, lb, lf, feat)
    t = sym_str(x)
    if delta == 'any':          # a string of any length from 0 to one more than the canonical text (e.g. the bare base of a featured atom)
        n = d.choice('len', len(t) + 2)
    else:
        n = len(t) + delta
    if n < 0:
        return True
    s = d.string('s', n, ANYCHAR)
    r = (x == s)
    ref = (s == t)
    if r != ref:
        return ('eq-str.differs-from-canonical-text', r, ref)
    if (s == x) != r:
        return ('eq-str.asymmetric',)
    return True


def h_xor(d, sx, sy, sz, lb, lf, feat):
    x = _mk(d, 'x', sx, lb, lf, feat)
    y = _mk(d, 'y', sy, lb, lf, feat)
    z = _mk(d, 'z', sz, lb, lf, feat)
    if not (x ^ x):
        return ('xor.irreflexive',)
    a, b = bool(x ^ y), bool(y ^ x)
    if a != b:
        return ('xor.asymmetric',)
    if a != ref_blind(x, y):
        return ('xor.differs-from-feature-blind-equality', a)
    if a and bool(y ^ z) and not (x ^ z):
        return ('xor.intransitive',)
    return True


def _names(d, k, ln, feat):
    out = []
    for i in range(k):
        if feat == 'ternary':
            parts = []
            for j in range(3):
                parts.append(d.string('n%d.k%d' % (i, j), 1, ANYCHAR.minus(',=')) + '=' + d.string('n%d.v%d' % (i, j), ln, ANYCHAR.minus(',=')))
            out.append(parts[0] + ',' + parts[1] + ',' + parts[2])
        else:
            out.append(d.string('n%d' % i, ln, ANYCHAR.minus(',')))
    return out


def h_clear(d, sx, lb, lf, feat, nfeat, k, ln):
    x = _mk(d, 'x', sx, lb, lf, feat)
    names = _names(d, k, ln, nfeat)
    r = x.clear_features(*names)
    C = catgen.cats()
    if catgen.shape_of(r) != catgen.shape_of(x):
        return ('clear.shape-changed',)

    def walk(a, b):
        if a.is_functor:
            if a.slash != b.slash:
                return ('clear.slash-changed',)
            return walk(a.left, b.left) or walk(a.right, b.right)
        if a.base != b.base:
            return ('clear.base-changed',)
        named = False
        for nm in names:
            if sym_str(a.feature) == nm and not (isinstance(a.feature, C.UnaryFeature) and a.feature.value is None):
                named = True
        if named:
            if not (isinstance(b.feature, C.UnaryFeature) and b.feature.value is None):
                return ('clear.named-feature-kept',)
        elif not ref_feq(a.feature, b.feature):
            return ('clear.other-feature-changed',)
        return None
    bad = walk(x, r)
    if bad:
        return bad
    r2 = r.clear_features(*names)
    if not ref_eq(r2, r):
        return ('clear.not-idempotent',)
    return True


def h_clear_twice(d, sx, lf):
    """two erasures in one process with different name sets on equal values: each is judged on its own names"""
    x = _mk(d, 'x', sx, 1, lf, 'mixed')
    y = _mk(_Same(d), 'x', sx, 1, lf, 'mixed')          # an equal value built again
    n1 = [d.string('n1', lf, ANYCHAR.minus(','))]
    n2 = [d.string('n2', lf, ANYCHAR.minus(',')), d.string('n3', lf, ANYCHAR.minus(','))]
    C = catgen.cats()

    def expect(a, names):
        if a.is_functor:
            return C.Functor(expect(a.left, names), a.slash, expect(a.right, names))
        v = a.feature.value
        if v is not None and any(v == nm for nm in names):
            return C.Atom(a.base)
        return a
    r1 = x.clear_features(*n1)
    if not ref_eq(r1, expect(x, n1)):
        return ('clear.first-erasure-wrong',)
    r2 = y.clear_features(*n2)
    if not ref_eq(r2, expect(y, n2)):
        return ('clear.second-erasure-with-other-names-wrong', sym_str(y), sym_str(r2))
    r3 = r1.clear_features(*n2)
    if not ref_eq(r3, expect(r1, n2)):
        return ('clear.chained-erasure-wrong',)
    return True


class _Same:
    """re-issues the symbolic strings already drawn under the same names"""

    def __init__(self, d):
        self.d, self.symbolic = d, d.symbolic

    def string(self, name, n, alpha):
        if self.d.symbolic:
            from engines.pysym.core import mk
            return mk(self.d.vars[name][1])
        return self.d.values[name]

    def char_in(self, name, chars):
        return self.string(name, 1, None)

    def boolean(self, name):
        if self.d.symbolic:
            from engines.pysym.core import E
            import z3
            v = self.d.vars[name][1]
            return E.decide(v == 1)
        return self.d.values[name] == 1

    def choice(self, name, k):
        return 1 if self.boolean(name) else 0


def obligations(tier):
    for sx in shapes_upto(2 if tier == 'quick' else 3):
        for lf in (1, 2):
            yield Obligation('C13.clear-twice[%s,lf=%d]' % (shape_name(sx), lf), 'h_clear_twice', dict(sx=sx, lf=lf))
    q = tier == 'quick'
    L = 3 if q else 4
    lens = [(1, 1), (2, 2)] if q else [(1, 1), (2, 2), (3, 3), (1, 3), (3, 1)]
    sh = shapes_upto(L)
    for feat in ('mixed', 'ternary'):
        for lb, lf in lens:
            for sx in sh:
                for sy in sh:
                    if catgen.nleaves(sx) != catgen.nleaves(sy) and (lb, lf) != lens[0]:
                        continue    # different sizes are unequal for a structural reason that does not depend on lengths
                    yield Obligation('C13.eq[%s,%s,lb=%d,lf=%d,%s]' % (shape_name(sx), shape_name(sy), lb, lf, feat), 'h_eq',
                                     dict(sx=sx, sy=sy, lb=lb, lf=lf, feat=feat))
            for sx in sh:
                for delta in (0, -1, 1) + (('any',) if catgen.nleaves(sx) <= 2 else ()):
                    yield Obligation('C13.str[%s,lb=%d,lf=%d,%s,d=%s]' % (shape_name(sx), lb, lf, feat, delta), 'h_str',
                                     dict(sx=sx, lb=lb, lf=lf, feat=feat, delta=delta))
    for feat in ('mixed', 'ternary'):
        for sx in shapes_upto(3 if q else 4):
            for depth in (1, 2, 3):
                if depth > 1 and sx == 'a':
                    continue
                yield Obligation('C13.eq-shared[%s,%s,depth=%d]' % (shape_name(sx), feat, depth), 'h_eq_shared', dict(sx=sx, lb=1, lf=1, feat=feat, depth=depth))
    sh3 = shapes_upto(2 if q else 3)
    for feat in ('mixed', 'ternary'):
        for sx in sh3:
            for sy in sh3:
                for sz in sh3:
                    if len({catgen.nleaves(s) for s in (sx, sy, sz)}) > 1 and feat == 'ternary':
                        continue
                    yield Obligation('C13.xor[%s,%s,%s,%s]' % (shape_name(sx), shape_name(sy), shape_name(sz), feat), 'h_xor',
                                     dict(sx=sx, sy=sy, sz=sz, lb=lens[-1][0] if q else 2, lf=1, feat=feat))
    for feat, nfeat in (('mixed', 'unary'), ('ternary', 'ternary'), ('mixed', 'ternary'), ('ternary', 'unary')):
        for sx in shapes_upto(3 if q else 4):
            for k in ((1, 2) if q else (1, 2, 3)):
                for lf in ((1, 2) if q else (1, 2, 3)):
                    if nfeat != feat and feat != 'mixed' and k > 1:
                        continue
                    if nfeat == 'ternary' and k * catgen.nleaves(sx) > (4 if q else 8):
                        continue
                    yield Obligation('C13.clear[%s,%s,names=%d x %s,lf=%d]' % (shape_name(sx), feat, k, nfeat, lf), 'h_clear',
                                     dict(sx=sx, lb=1, lf=lf, feat=feat, nfeat=nfeat, k=k, ln=lf))
