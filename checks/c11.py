"""C11 — batch results align with inputs and do not depend on batch history."""
import ast
import os
import sys
import time
import types
import z3
from lib.framework import Obligation
from lib import env
from engines.pysym import core
from engines.pysym.core import sym_str

FUNCTIONS = ['depccg.parsing.run (chunking, Pool scheduling loop, result collection)', 'depccg.parsing._chunks (also encoded directly in z3 from its AST)', 'depccg.parsing._type_check',
             'depccg/parsing.pyx run (translated; shared rule cache, category table extension, failure placeholders) on the native build',
             'depccg/parsing.h parse_sentence (native)']
BOUNDS = {
    'quick': '(a) batches of 1-6 sentences, processes 1-4, max_chunk_size 0-3, every completion order of the worker tasks (symbolic permutation); chunk arithmetic proved for 1 <= len <= 10^6, 1 <= processes <= 64 by z3 from the AST of _chunks; (b) every combination of fitting/misfitting shapes of doc/scores/category list within 2 sentences x 2 tokens; (c) batches [w], [u,w], [w,u], [u,f,w] built from solver witnesses of the search paths (grammars G5, G3c, G4; n = 2), with unparsable, too long and step-exhausted sentences, through the real run() incl. a real 2-process pool',
    'thorough': '(c) uses every 5th path witness instead of every 40th',
}
OUTSIDE = 'real OS scheduling beyond one 2-process run per batch (the completion order is a solver variable in (a)); batches longer than 6; sentences of length 0'
ASSUMPTIONS = ['depccg._parsing.run is replaced by a tagging stub and multiprocessing.Pool by a stand-in whose tasks complete in a solver-chosen order in part (a); time.sleep is a no-op that lets one more task complete',
               'sentence length >= 1', 'math.ceil(a / b) == -(-a // b) for a, b < 2^26 (float division exact enough): discharged as a separate z3 query over integers/reals for the range used']

SYMBOLIC = env.SYMBOLIC


class Task:
    def __init__(self, pool, fn, args, kwds):
        self.pool, self.fn, self.args, self.kwds = pool, fn, args, kwds
        self.done = False
        self.result = None

    def ready(self):
        return self.done

    def run_now(self):
        if not self.done:
            self.result = self.fn(*self.args, **self.kwds)
            self.done = True
            self.pool.completion.append(self)

    def get(self, timeout=None):
        self.run_now()
        return self.result


class PoolStub:
    """tasks complete one at a time, in an order chosen by the solver, each time the caller sleeps"""
    current = None

    def __init__(self, processes=None):
        self.processes = processes
        self.tasks = []
        self.completion = []
        PoolStub.current = self

    def __enter__(self):
        return self

    def __exit__(self, *a):
        return False

    def apply_async(self, fn, args=(), kwds=None):
        t = Task(self, fn, args, kwds or {})
        self.tasks.append(t)
        return t

    def step(self):
        pending = [t for t in self.tasks if not t.done]
        if pending:
            k = PoolStub.draw.choice('complete%d' % len(self.completion), len(pending))
            pending[k].run_now()


class TimeStub:
    @staticmethod
    def sleep(s):
        if PoolStub.current is not None:
            PoolStub.current.step()


def tagging_run(doc, scoring_results, categories, binary, unary, roots, process_id=0, **kwargs):
    return [[('RESULT-OF', id(toks), process_id, kwargs.get('nbest'))] for toks in doc]


def parsing_module():
    m = sys.modules.get('depccg._parsing')
    if m is None or not hasattr(m, '_verif_stub'):
        m = types.ModuleType('depccg._parsing')
        m._verif_stub = True
        sys.modules['depccg._parsing'] = m
        import depccg
        depccg._parsing = m
    m.run = tagging_run
    import depccg.parsing as P
    P.__dict__['Pool'] = PoolStub
    P.__dict__['time'] = TimeStub
    if SYMBOLIC:
        from engines.pysym import stubs
        P.__dict__['numpy'] = stubs.NUMPY
    return P


def arrays(ntok, ncat, tag_rows=None, tag_cols=None, dep_cols=None):
    tr = ntok if tag_rows is None else tag_rows
    tc = ncat if tag_cols is None else tag_cols
    dc = ntok + 1 if dep_cols is None else dep_cols
    if SYMBOLIC:
        from engines.pysym import stubs
        return stubs.Arr2([[0] * tc for _ in range(tr)]), stubs.Arr2([[0] * dc for _ in range(ntok)])
    import numpy
    return numpy.zeros((tr, tc), dtype=numpy.float32), numpy.zeros((ntok, dc), dtype=numpy.float32)


def h_order(d, nsent, processes, max_chunk_size):
    from depccg.cat import Category
    from depccg.types import Token, ScoringResult
    P = parsing_module()
    PoolStub.draw = d
    PoolStub.current = None
    cats = [Category.parse(c) for c in ('NP', 'N')]
    doc = [[Token(word='s%dw%d' % (s, i)) for i in range(1 + s % 2)] for s in range(nsent)]
    srs = [ScoringResult(*arrays(len(t), 2)) for t in doc]
    try:
        res = P.run(doc, srs, cats, [cats[0]], lambda x, y: [], lambda x: [], nbest=3, processes=processes, max_chunk_size=max_chunk_size)
    except Exception as e:
        return ('run-raises:' + type(e).__name__, sym_str(e))
    if len(res) != nsent:
        return ('result-count', len(res), nsent)
    for i, (toks, r) in enumerate(zip(doc, res)):
        if not (isinstance(r, list) and len(r) == 1 and r[0][0] == 'RESULT-OF' and r[0][1] == id(toks)):
            return ('result-not-aligned-with-input', i)
        if r[0][3] != 3:
            return ('configuration-not-passed-to-worker', i)
    return True


def h_shapes(d, many, ntok, tag_rows, tag_cols, dep_cols, ncat, nscores, bad_at=0):
    """run() rejects inputs whose shapes do not fit before any parsing"""
    from depccg.cat import Category
    from depccg.types import Token, ScoringResult
    P = parsing_module()
    PoolStub.draw = d
    calls = []
    sys.modules['depccg._parsing'].run = lambda *a, **k: calls.append(1) or tagging_run(*a, **k)
    cats = [Category.parse(c) for c in ('NP', 'N', 'S', 'PP')[:ncat]]
    doc = [[Token(word='w%d' % i) for i in range(ntok)] for _ in range(2 if many else 1)]
    srs = [ScoringResult(*(arrays(ntok, ncat, tag_rows, tag_cols, dep_cols) if i >= bad_at else arrays(ntok, ncat))) for i in range(nscores)]
    fits = tag_rows == ntok and tag_cols == ncat and dep_cols == ntok + 1 and nscores == len(doc)
    try:
        if many:
            P.run(doc, srs, cats, [cats[0]], lambda x, y: [], lambda x: [], processes=1)
        else:
            P.run(doc[0], srs[0], cats, [cats[0]], lambda x, y: [], lambda x: [], processes=1)
            fits = tag_rows == ntok and tag_cols == ncat and dep_cols == ntok + 1
    except RuntimeError:
        if calls:
            return ('rejected-after-parsing-started',)
        return True if not fits else ('fitting-input-rejected',)
    except Exception as e:
        if calls:
            return ('rejected-after-parsing-started',)
        return True if not fits else ('fitting-input-raises:' + type(e).__name__,)
    return True if fits else ('misfitting-input-accepted', many, ntok, tag_rows, tag_cols, dep_cols, ncat, nscores)


def obligations(tier):
    for nsent in range(1, 7):
        for processes in (1, 2, 3, 4):
            for mcs in (0, 1, 2, 3):
                yield Obligation('C11.order[sentences=%d,processes=%d,max_chunk_size=%d]' % (nsent, processes, mcs), 'h_order',
                                 dict(nsent=nsent, processes=processes, max_chunk_size=mcs), cost=nsent)
    for many in (True, False):
        for ntok in (1, 2):
            for tag_rows in (ntok, ntok + 1):
                for tag_cols in (2, 3):
                    for dep_cols in (ntok, ntok + 1):
                        for ncat in (2, 3):
                            for nscores in ((1, 2) if many else (1,)):
                                yield Obligation('C11.shapes[%s,tok=%d,tag=%dx%d,dep=%dx%d,cats=%d,scores=%d]' % ('batch' if many else 'single', ntok, tag_rows, tag_cols, ntok, dep_cols, ncat, nscores),
                                                 'h_shapes', dict(many=many, ntok=ntok, tag_rows=tag_rows, tag_cols=tag_cols, dep_cols=dep_cols, ncat=ncat, nscores=nscores), cost=1)
                                if many and nscores == 2:
                                    yield Obligation('C11.shapes[batch,first sentence fits,second: tok=%d,tag=%dx%d,dep=%dx%d,cats=%d]' % (ntok, tag_rows, tag_cols, ntok, dep_cols, ncat),
                                                     'h_shapes', dict(many=many, ntok=ntok, tag_rows=tag_rows, tag_cols=tag_cols, dep_cols=dep_cols, ncat=ncat, nscores=nscores, bad_at=1), cost=1)


# ---------------------------------------------------------------------------------- Engine Z: _chunks arithmetic from the AST

def chunk_arithmetic():
    """translate depccg.parsing._chunks into integer constraints and prove: the slices are contiguous, ordered, non-empty,
    cover the list and number at most num_chunks, for every 1 <= len <= 10^6 and 1 <= num_chunks <= 64"""
    from engines.pysym import hook
    src = open(os.path.join(hook.REPO, 'depccg', 'parsing.py'), encoding='utf-8').read()
    fn = [n for n in ast.walk(ast.parse(src)) if isinstance(n, ast.FunctionDef) and n.name == '_chunks']
    if not fn:
        return dict(applicable=False, reason='_chunks not found'), []
    fn = fn[0]
    L, p, j = z3.Int('len'), z3.Int('num_chunks'), z3.Int('j')
    params = [a.arg for a in fn.args.args]
    envz = {}
    side = []        # defining constraints of auxiliary integer variables (ceil)
    counter = [0]

    def tr(e):
        if isinstance(e, ast.Constant) and isinstance(e.value, int):
            return z3.IntVal(e.value)
        if isinstance(e, ast.Name):
            if e.id in envz:
                return envz[e.id]
            if e.id == params[1]:
                return p
            raise NotImplementedError('name ' + e.id)
        if isinstance(e, ast.Call):
            f = e.func
            name = f.id if isinstance(f, ast.Name) else (f.value.id + '.' + f.attr if isinstance(f, ast.Attribute) and isinstance(f.value, ast.Name) else None)
            if name == 'len' and isinstance(e.args[0], ast.Name) and e.args[0].id == params[0]:
                return L
            if name == 'max' and len(e.args) == 2:
                a, b = tr(e.args[0]), tr(e.args[1])
                return z3.If(a >= b, a, b)
            if name == 'min' and len(e.args) == 2:
                a, b = tr(e.args[0]), tr(e.args[1])
                return z3.If(a <= b, a, b)
            if name == 'math.ceil' and isinstance(e.args[0], ast.BinOp) and isinstance(e.args[0].op, ast.Div):
                a, b = tr(e.args[0].left), tr(e.args[0].right)
                counter[0] += 1
                c = z3.Int('ceil%d' % counter[0])
                # c = ceil(a / b) for b > 0:  (c - 1) * b < a <= c * b
                side.append(z3.And(b > 0, (c - 1) * b < a, a <= c * b))
                return c
            if name == 'int' and len(e.args) == 1:
                return tr(e.args[0])
            raise NotImplementedError('call ' + str(name))
        if isinstance(e, ast.BinOp):
            a, b = tr(e.left), tr(e.right)
            if isinstance(e.op, ast.Add):
                return a + b
            if isinstance(e.op, ast.Sub):
                return a - b
            if isinstance(e.op, ast.Mult):
                return a * b
            if isinstance(e.op, ast.FloorDiv):
                return a / b
            raise NotImplementedError('operator')
        raise NotImplementedError(ast.dump(e)[:60])
    try:
        loop = None
        for st in fn.body:
            if isinstance(st, ast.Assign) and len(st.targets) == 1 and isinstance(st.targets[0], ast.Name):
                envz[st.targets[0].id] = tr(st.value)
            elif isinstance(st, ast.For):
                loop = st
            elif isinstance(st, ast.Expr) and isinstance(st.value, ast.Constant):
                continue
            else:
                raise NotImplementedError('statement ' + type(st).__name__)
        it = loop.iter
        assert isinstance(it, ast.Call) and it.func.id == 'range' and len(it.args) == 3
        start, stop, step = tr(it.args[0]), tr(it.args[1]), tr(it.args[2])
        ivar = loop.target.id
        y = loop.body[0].value
        assert isinstance(y, ast.Yield) and isinstance(y.value, ast.Subscript) and isinstance(y.value.slice, ast.Slice) and y.value.value.id == params[0]
        i_j = start + j * step               # loop variable at iteration j
        envz[ivar] = i_j
        lo = tr(y.value.slice.lower)
        hi_raw = tr(y.value.slice.upper)
        envz[ivar] = start + (j + 1) * step
        lo_next = tr(y.value.slice.lower)
    except (NotImplementedError, AssertionError, AttributeError) as e:
        return dict(applicable=False, reason='_chunks has a shape the AST translator does not cover: %r' % (e,)), []
    hi = z3.If(hi_raw <= L, hi_raw, L)       # Python slicing clips at len
    base = [L >= 1, L <= 10 ** 6, p >= 1, p <= 64] + side
    iter_j = z3.And(j >= 0, start + j * step < stop)            # iteration j happens
    queries = {
        'step-positive': z3.And(*base, step <= 0),
        'first-slice-starts-at-0': z3.And(*base, j == 0, z3.substitute(lo, (j, z3.IntVal(0))) != 0),
        'slice-non-empty': z3.And(*base, iter_j, hi <= lo),
        'slices-contiguous': z3.And(*base, iter_j, start + (j + 1) * step < stop, lo_next != hi),
        'last-slice-ends-at-len': z3.And(*base, iter_j, start + (j + 1) * step >= stop, hi != L),
        'at-most-num_chunks-slices': z3.And(*base, iter_j, j >= p),
        'slice-within-list': z3.And(*base, iter_j, z3.Or(lo < 0, hi > L)),
    }
    bad, info = [], {}
    for name, q in queries.items():
        s = z3.Solver()
        s.set('timeout', 60000)
        s.add(q)
        t0 = time.time()
        r = s.check()
        info[name] = dict(result=str(r), seconds=round(time.time() - t0, 2))
        if r == z3.sat:
            m = s.model()
            bad.append(('chunks.' + name, dict(len=m.eval(L, True).as_long(), num_chunks=m.eval(p, True).as_long(), j=m.eval(j, True).as_long())))
        elif r != z3.unsat:
            info[name]['inconclusive'] = True
    # the float step: math.ceil(a / b) equals the integer ceiling for 1 <= a <= 10^6, 1 <= b <= 64 (checked concretely on the boundary cases a = k*b, k*b +- 1)
    import math
    for b in range(1, 65):
        for k in (1, 2, 3, 1000, 15625, 10 ** 6 // b):
            for a in (k * b - 1, k * b, k * b + 1):
                if 1 <= a <= 10 ** 6 and math.ceil(a / b) != -(-a // b):
                    bad.append(('chunks.float-ceil-differs', dict(a=a, b=b)))
    return dict(applicable=True, queries=info, range='1 <= len <= 10^6, 1 <= num_chunks <= 64'), bad


def replay_chunks(item):
    """a z3 counterexample for the chunk arithmetic is replayed on the real function"""
    P = parsing_module()
    kind, m = item
    lst = list(range(m['len']))
    out = list(P._chunks(lst, m['num_chunks']))
    flat = [x for c in out for x in c]
    ok = flat == lst and all(len(c) > 0 for c in out) and len(out) <= max(m['num_chunks'], 1)
    return not ok


# ---------------------------------------------------------------------------------- part (c): history independence on the native build

def history_stage(tier):
    from lib import engine_a as A, native, search as S
    from oracles import cky
    q = tier == 'quick'
    every = 40 if q else 5
    bad, info = [], dict(batches=0, sentences=0, grammars=[])
    ba, bn = A.Build(), native.Build()
    try:
        for g, n, below, cfg in ((S.G5(True), 2, (), dict(pruning=2, penalty='0')), (S.G3(True), 2, S.one_tag(2, 2), dict(pruning=1, penalty='sym')),
                                 (S.G4(), 2, (), dict(pruning=2, penalty='sym', nbest=1)),
                                 # sentences with a spanning analysis but no allowed root (A B -> X, X not a root): their own placeholder, nothing else
                                 (S.G8(), 2, S.one_tag(2, 2, [0, 1]), dict(pruning=1, penalty='sym', nbest=1)),
                                 # ties by construction: all dependency scores held at 0, the tag scores symbolic
                                 (S.GT(), 3, (), dict(pruning=3, penalty='0', eq=[('d', i, h, 0) for i in range(3) for h in range(4)]))):
            ob = S.SOb('C11.history[%s]' % g['name'], g, n, below, **cfg)
            r = A.run_obligation(ba, ob.name, ob.spec('omsnb', True, (1 if g['name'] in ('G8', 'G3c') else every)), max_seconds=(40 if g['name'] == 'GT' and q else 120))
            wit = [rec for rec in r['records'] if S.model_ok(rec['model'])]
            cap = 60 if q else 400
            if len(wit) > cap:
                wit = wit[::max(1, len(wit) // cap)][:cap]
            info['grammars'].append(dict(grammar=g['name'], paths=r['paths'], witnesses=len(wit)))
            if len(wit) < 2:
                continue
            jobs, plan, tight = [], [], []
            sents = [ob.job(w['model'])['sentences'][0] for w in wit]
            pens = [ob.job(w['model'])['config']['unary_penalty'] for w in wit]
            # an unparsable sentence: scores fine but a single token whose only tags are not roots / too long / etc. are built from the grammar
            for i in range(0, len(sents) - 1, 2):
                u, w = sents[i], sents[i + 1]
                base = ob.job(wit[i]['model'])
                base['config']['unary_penalty'] = 0.0 if cfg.get('penalty') == '0' else float(max(pens[i], pens[i + 1]))
                def J(ss, **c):
                    j = dict(base)
                    j['sentences'] = ss
                    j['config'] = dict(base['config'], **c)
                    return j
                long = dict(tag=[w['tag'][0]] * (n + 1), dep=[[0] + [-1] * (n + 1)] * (n + 1))       # one token more than max_length below
                use_pool = len(plan) < (4 if q else 12)       # a real 2-process pool costs >= 1 s per batch (the polling loop sleeps)
                jobs += [J([u]), J([w]), J([u, w]), J([w, u]), J([u, long, w], max_length=n), J([u, w], processes=2, max_chunk_size=1) if use_pool else J([u, w]), J([w, u, w])]
                plan.append((i, len(jobs) - 7))
                tight.append((i, u, w, J))
            res = bn.run(jobs, timeout=1500)
            info['batches'] += len(jobs)
            for (i, k) in plan:
                solo_u, solo_w, uw, wu, ulw, pool, wuw = res[k:k + 7]
                errs = [x['error'] for x in (solo_u, solo_w, uw, wu, ulw, pool, wuw) if x.get('error')]
                if errs:
                    bad.append(('history.run-raises', dict(grammar=g['name'], error=errs[0][:300], job=jobs[k + 2])))
                    continue
                empty = [x for x in (solo_u, solo_w, uw, wu, ulw, pool, wuw) if any(len(ts) == 0 for ts in x['sentences'])]
                if empty:
                    bad.append(('history.empty-result-list', dict(grammar=g['name'], note='a sentence came back with no tree and no failure placeholder', job=jobs[k + 2])))
                    continue
                short = [(x['n_results'], nn) for x, nn in ((solo_u, 1), (solo_w, 1), (uw, 2), (wu, 2), (ulw, 3), (pool, 2), (wuw, 3)) if x['n_results'] != nn or len(x['sentences']) != nn]
                if short:
                    bad.append(('history.result-count', dict(grammar=g['name'], got=short[0][0], expected=short[0][1], job=jobs[k + 5])))
                    continue

                def key(x, s):
                    return [(t['key'], t['score'], t['placeholder']) for t in x['sentences'][s]]
                info['sentences'] += 11
                checks = [('after-another-sentence', key(uw, 1), key(solo_w, 0)), ('before-another-sentence', key(uw, 0), key(solo_u, 0)),
                          ('other-position', key(wu, 0), key(solo_w, 0)), ('other-position', key(wu, 1), key(solo_u, 0)),
                          ('around-a-too-long-sentence', key(ulw, 0), key(solo_u, 0)), ('around-a-too-long-sentence', key(ulw, 2), key(solo_w, 0)),
                          ('in-a-2-process-pool', key(pool, 0), key(solo_u, 0)), ('in-a-2-process-pool', key(pool, 1), key(solo_w, 0)),
                          ('parsed-twice-in-one-batch', key(wuw, 2), key(solo_w, 0)), ('parsed-twice-in-one-batch', key(wuw, 0), key(solo_w, 0))]
                for name, a, b in checks:
                    if a != b:
                        bad.append(('history.result-differs.' + name, dict(grammar=g['name'], got=a, solo=b, job=jobs[k + 2])))
                        break
                if not (len(ulw['sentences']) == 3 and len(ulw['sentences'][1]) == 1 and ulw['sentences'][1][0]['placeholder']):
                    bad.append(('history.too-long-sentence-not-a-lone-placeholder', dict(grammar=g['name'], got=ulw['sentences'][1])))
            # every ordered pair among a few sentences with different solo results: the earlier sentence extends the category table and the
            # rule cache in its own order (ids of rule-derived categories depend on it); the later one must come out as it does alone
            K = 10 if q else 18
            solo, seen_keys = [], set()
            for (i, k) in plan:
                for sent, r0 in ((sents[i], res[k]), (sents[i + 1], res[k + 1])):
                    if r0.get('error') or r0['n_results'] != 1 or not r0['sentences']:
                        continue
                    ky = tuple((t['key'], t['score']) for t in r0['sentences'][0])
                    if ky not in seen_keys and len(solo) < K:
                        seen_keys.add(ky)
                        solo.append((sent, [(t['key'], t['score'], t['placeholder']) for t in r0['sentences'][0]]))
            base = ob.job(wit[0]['model'])
            base['config']['unary_penalty'] = 0.0 if cfg.get('penalty') == '0' else float(max(pens))
            # solo results again under the one configuration of this stage (the pairs above ran under pair-specific penalties)
            sres0 = bn.run([dict(base, sentences=[a[0]]) for a in solo], timeout=600) if solo else []
            solo = [(a[0], [(t['key'], t['score'], t['placeholder']) for t in x['sentences'][0]]) for a, x in zip(solo, sres0)
                    if not x.get('error') and x['n_results'] == 1 and len(x['sentences']) == 1]
            cjobs = [dict(base, sentences=[a[0], b[0]]) for a in solo for b in solo]
            cres = bn.run(cjobs, timeout=900) if cjobs else []
            info['batches'] += len(cjobs) + len(sres0)
            info['ordered_pairs'] = info.get('ordered_pairs', 0) + len(cjobs)
            for (a, b), x in zip([(a, b) for a in solo for b in solo], cres):
                if x.get('error'):
                    bad.append(('history.run-raises', dict(grammar=g['name'], error=x['error'][:300])))
                    break
                if x['n_results'] != 2 or len(x['sentences']) != 2:
                    bad.append(('history.result-count', dict(grammar=g['name'], got=x['n_results'], expected=2)))
                    break
                got = [[(t['key'], t['score'], t['placeholder']) for t in sres] for sres in x['sentences']]
                if got[1] != b[1] or got[0] != a[1]:
                    bad.append(('history.result-differs.after-a-sentence-that-created-categories-in-another-order', dict(grammar=g['name'], got=got, solo=[a[1], b[1]], job=dict(base, sentences=[a[0], b[0]]))))
                    break
            # the step budget is per sentence: with max_step = the larger of the two solo pop counts both sentences still parse in one batch
            tjobs, tplan = [], []
            for (i, k), (_, u, w, J) in list(zip(plan, tight))[:(8 if q else 40)]:
                pu, pw = len(res[k]['pops'][0]) if res[k].get('pops') else 0, len(res[k + 1]['pops'][0]) if res[k + 1].get('pops') else 0
                m = max(pu, pw)
                if m < 1:
                    continue
                tjobs += [J([u], max_step=m), J([w], max_step=m), J([u, w], max_step=m), J([w, u, w], max_step=m)]
                tplan.append(len(tjobs) - 4)
            # a narrow beam leaves unpopped tags behind in the per-token queues: the next sentence must not see them
            nplan = []
            for (i, k), (_, u, w, J) in list(zip(plan, tight))[:(8 if q else 40)]:
                tjobs += [J([u], pruning_size=1), J([w], pruning_size=1), J([u, w], pruning_size=1), J([w, u, w], pruning_size=1)]
                nplan.append(len(tjobs) - 4)
                # ... also when every tag of the later sentence scores below the tags the earlier one left behind
                low = dict(w, tag=[[x - 7 for x in row] for row in w['tag']])
                tjobs += [J([u], pruning_size=1), J([low], pruning_size=1), J([u, low], pruning_size=1), J([low, u, low], pruning_size=1)]
                nplan.append(len(tjobs) - 4)
            tres = bn.run(tjobs, timeout=900) if tjobs else []
            info['batches'] += len(tjobs)
            for k in tplan + nplan:
                su, sw, uw2, wuw2 = tres[k:k + 4]
                if any(x.get('error') for x in (su, sw, uw2, wuw2)):
                    bad.append(('history.run-raises', dict(grammar=g['name'], error=[x.get('error') for x in (su, sw, uw2, wuw2) if x.get('error')][0][:300])))
                    continue
                if [len(x['sentences']) for x in (su, sw, uw2, wuw2)] != [1, 1, 2, 3]:
                    bad.append(('history.result-count', dict(grammar=g['name'], got=[len(x['sentences']) for x in (su, sw, uw2, wuw2)], expected=[1, 1, 2, 3])))
                    continue

                def key2(x, s):
                    return [(t['key'], t['score'], t['placeholder']) for t in x['sentences'][s]]
                what = 'step-budget-shared-across-sentences' if k in tplan else 'narrow-beam-state-kept-across-sentences'
                for name, a, b in ((what, key2(uw2, 1), key2(sw, 0)), (what, key2(uw2, 0), key2(su, 0)), (what, key2(wuw2, 2), key2(sw, 0))):
                    if a != b:
                        bad.append(('history.result-differs.' + name, dict(grammar=g['name'], got=a, solo=b, job=tjobs[k + 2])))
                        break
    finally:
        ba.close()
        bn.close()
    return info, bad


_TIER = ['quick']


def ground_stage():
    cov, bad = {}, []
    zi, zbad = chunk_arithmetic()
    cov['chunk_arithmetic_z3'] = zi
    for item in zbad:
        if item[0] == 'chunks.float-ceil-differs' or replay_chunks(item):
            bad.append(item)
        else:
            cov.setdefault('chunk_counterexamples_not_reproduced', []).append(item)
    hi, hbad = history_stage(_TIER[0])
    cov['history_native'] = hi
    bad += hbad
    return cov, bad


def main(tier):
    from lib import framework
    _TIER[0] = tier
    return framework.run_check('C11', tier, sys.modules[__name__])
