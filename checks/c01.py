"""C01 — A* search returns the highest-scoring derivation; agenda priorities never increase."""
from lib import search as S

FUNCTIONS = ['depccg/parsing.h: parse_sentence (whole function incl. beam loop, goal/unary/binary pushes, final sort), compute_outside_probabilities, chart::update/cell, matrix::argmax, utils::argmax, cell_item::score, operator< — compiled unchanged with float := sym::Float',
             'libstdc++ std::priority_queue/std::list/std::unordered_map run for real (agenda wrapped only to observe pops)']
BOUNDS = {
    'quick': 'sentences of n = 1 (4 free tags, unary rules), n = 2 (2 free tags per word), n = 3 (1 admitted tag per word); every tag/dependency score an integer solver variable <= 0, unary penalty a variable >= 0; grammars G1/G2 (attachment ambiguity, left/right-headed), GU (all bracketings), G3/G3c (unary chain, acyclic, length 2), G5/G5r (two roots), G6, and tables closed under the real en/ja rule functions over a 4-category lexicon; step budgets {2,4,8} and unbounded',
    'thorough': 'adds n = 3 with a second free tag on one word, n = 4 with one admitted tag per word (G1-like and GU), more real-grammar sentences',
}
OUTSIDE = 'longer sentences / more tags per word (path counts explode); float rounding of non-integer scores and the 1e33 magnitude; non-head-uniform grammars (the property excludes them); cyclic unary rules'
ASSUMPTIONS = ['scores are integers (exact in float32 below 2^24): a "holds" verdict is about real arithmetic on integer-valued matrices; path constraints are homogeneous linear so rational counterexamples scale to integer ones',
               'log-probabilities <= 0, unary penalty >= 0, sentence length >= 1',
               '"one admitted tag per word" is the partition piece of the matrix space in which the other tags of the word score below it (pruning_size 1)']


def GU(k=5):
    """every pair of categories combines into X: all binary bracketings are derivations"""
    X = k
    b = [(x, y, X, 1, 'c') for x in range(k + 1) for y in range(k + 1)]
    return dict(name='GU', ncats=k + 1, T=k, binary=b, unary=[], roots=[X], uniform=True)


def GUn(n):
    g = GU(n)
    return g


def obligations(tier):
    q = tier == 'quick'
    obs = []
    g1, g2 = S.G1(True), S.G1(False)
    for g in (g1, g2):
        obs.append(S.SOb('C01.opt[%s,n=3,tags=1]' % g['name'], g, 3, S.one_tag(3, 3), pruning=1, penalty='0'))
    gu3 = GUn(3)
    obs.append(S.SOb('C01.opt[GU,n=3,tags=1]', gu3, 3, S.one_tag(3, 3), pruning=1, penalty='0'))
    for ms in (2, 4, 8):
        obs.append(S.SOb('C01.opt[G1,n=3,tags=1,max_step=%d]' % ms, g1, 3, S.one_tag(3, 3), pruning=1, penalty='0', max_step=ms))
    for g in (S.G5(True), S.G5(False)):
        obs.append(S.SOb('C01.opt[%s,n=2,tags=2]' % g['name'], g, 2, pruning=2, penalty='0'))
    for g in (S.G3(False), S.G3(True)):
        if q:
            obs.append(S.SOb('C01.opt[%s,n=2,tags=1,penalty=sym]' % g['name'], g, 2, S.one_tag(2, 2), pruning=1, penalty='sym'))
        else:
            obs.append(S.SOb('C01.opt[%s,n=2,tags=2 on word 0,penalty=sym]' % g['name'], g, 2, [(1, 0)], pruning=2, penalty='sym', max_seconds=400))
            obs.append(S.SOb('C01.opt[%s,n=2,tags=2,penalty=sym]' % g['name'], g, 2, pruning=2, penalty='sym', max_seconds=500))
    obs.append(S.SOb('C01.opt[G6,n=1,tags=4,penalty=sym]', S.G6(), 1, pruning=4, penalty='sym'))
    obs.append(S.SOb('C01.opt[G3c,n=1,tags=2,penalty=sym]', S.G3(True), 1, pruning=2, penalty='sym'))
    for lang, sents in (('en', [[0, 2, 0], [3, 1]]), ('ja', [[0, 1, 2], [0, 1, 3]])):
        g = S.real_grammar(lang)
        for tags in sents:
            n = len(tags)
            obs.append(S.SOb('C01.opt[%s,n=%d,tags=1:%s]' % (g['name'], n, tags), g, n, S.one_tag(n, g['T'], tags), pruning=1, penalty='sym'))
    obs.append(S.SOb('C01.opt[G7,n=3,tags=1,penalty=sym]', S.G7(False), 3, S.one_tag(3, 3), pruning=1, penalty='sym'))
    obs.append(S.SOb('C01.opt[G7x,n=3,tags=1,penalty=sym]', S.G7x(False), 3, S.one_tag(3, 3), pruning=1, penalty='sym'))
    gp = S.real_grammar('en_punct')
    for tags in ([[1, 1, 0]] if q else [[1, 1, 0], [1, 2, 0], [0, 1, 2]]):
        obs.append(S.SOb('C01.opt[G_en_punct,n=3,tags=1:%s]' % tags, gp, 3, S.one_tag(3, gp['T'], tags), pruning=1, penalty='sym'))
    if not q:
        obs.append(S.SOb('C01.opt[G_en_punct,n=4,tags=1:[0,1,2,0]]', gp, 4, S.one_tag(4, gp['T'], [0, 1, 2, 0]), pruning=1, penalty='sym', max_seconds=450))
    if not q:
        gu4 = GUn(4)
        obs.append(S.SOb('C01.opt[GU,n=4,tags=1]', gu4, 4, S.one_tag(4, 4), pruning=1, penalty='0', max_seconds=500))
        # second free tag on one word (n = 3)
        for w in (0, 1, 2):
            below = [(i, c) for i in range(3) for c in range(3) if c != i and not (i == w and c == (i + 1) % 3)]
            obs.append(S.SOb('C01.opt[GU,n=3,tags=1+second tag on word %d]' % w, gu3, 3, below, pruning=2, penalty='0', max_seconds=500))
        g = S.real_grammar('en')
        obs.append(S.SOb('C01.opt[G_en,n=4,tags=1:[3,1,2,0]]', g, 4, S.one_tag(4, g['T'], [3, 1, 2, 0]), pruning=1, penalty='sym', max_seconds=500))
    return obs


def main(tier):
    return S.run_search_check('C01', tier, obligations(tier), ('C01.',), FUNCTIONS, BOUNDS[tier], OUTSIDE, ASSUMPTIONS,
                              records_for_validation=True, record_every=(25 if tier == 'quick' else 50))
