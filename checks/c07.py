"""C07 — every output format encodes the same derivation."""
from lib.framework import Obligation
from lib import env, trees
from lib.trees import TreeBuilder, SHAPES, shape_name, nleaves
from engines.pysym.explore import TOKEN
from engines.pysym.core import sym_str, sjoin, SymStr, is_sym, chars_of
from oracles import decoders as D
from oracles.decoders import DecodeError, spell

FUNCTIONS = ['depccg.printer.to_string (dispatch, headers, numbering)', 'auto_of / auto_extended_of', 'conll_of / _resolve_dependencies', 'ptb_of', 'deriv_of', 'ja_of',
             'json_of', 'xml_of', 'to_jigg_xml / _cat_multi_valued', 'to_prolog_en / to_prolog_ja / _prolog_category_string / _escape_prolog', 'to_mathml / _mathml_cat',
             'depccg.utils.denormalize/normalize', 'depccg.tree.Tree accessors']
BOUNDS = {
    'quick': 'trees of <= 3 leaves with optional unary nodes, head flag of every binary node symbolic, labels from the grammar vocabulary; one or two token attributes symbolic at a time (1-2 code points over printable non-blank text: ASCII punctuation, Latin-1, kana, CJK, one astral block), the others fixed; batches of 2 sentences with 2 and 1 trees; categories concrete from shipped-style inventories',
    'thorough': 'attribute strings up to 3 code points on two leaves; 4-leaf trees for the line formats; labels symbolic (forks over the vocabulary)',
}
OUTSIDE = 'lxml/json serialisation (stand-ins in symbolic runs; replays decode the real text with lxml / json); larger trees and longer tokens; ccg2lambda formats'
ASSUMPTIONS = ['each decoder is harness code written from the format description in DESIGN.md Appendix A and is whitespace-tolerant; it runs under the same engine so that a token that makes a format lexically ambiguous shows up as a different decoded tree',
               'html: compared as the document-order sequence of words, categories and labels (the templates fix the nesting)']

AL = TOKEN
BR = {'(': '-LRB-', ')': '-RRB-', '{': '-LCB-', '}': '-RCB-', '[': '-LSB-', ']': '-RSB-'}


def esc_auto(w):
    """escaped spelling of a word in AUTO text: whole-token brackets by name, every angle character by name"""
    for k, v in BR.items():
        if w == k:
            return v
    return D.sreplace(D.sreplace(w, '>', '-RAB-'), '<', '-LAB-')


def attr_fn(focus_attr, n, leaf=0):
    def mk(key):
        def f(d, name, i):
            if i == leaf and key in focus_attr:
                return d.string(name, n, AL)
            return None
        return f
    return mk


ASCII_AL = None


PUNCT_CATS = dict(leaf=[',', 'conj', '.', ';', ':', 'LRB'], node=['NP\\NP', 'S[dcl]', 'NP'])
VARIANT = [None]


def build(d, lang, shape, focus, n, labels=0, prefix='t', leaf=0, heads='sym', alpha=None, rotate=0):
    """tree with the attributes in `focus` symbolic on leaf `leaf`"""
    al = alpha or AL

    def word(dd, name, i):
        if i == leaf and 'word' in focus:
            return dd.string(name, n, al)
        return 'w%d' % (0 if VARIANT[0] == 'dup' else i)
    attrs = {}
    if VARIANT[0] == 'dup':
        # every token of the sentence has the same content (a sentence such as 'the the the'): only positions tell them apart
        for key, val in (('lemma', 'l'), ('pos', 'P'), ('entity', 'O'), ('chunk', 'I'), ('base', 'b'), ('surf', 'w0')):
            attrs[key] = (lambda val: (lambda dd, name, i: val))(val)
    for key in focus:
        if key == 'word':
            continue
        attrs[key] = (lambda key: (lambda dd, name, i: dd.string(name, n, al) if i == leaf else {'lemma': 'l', 'pos': 'P', 'entity': 'O', 'chunk': 'I', 'base': 'b', 'pos1': 'q', 'inflectionForm': 'f'}.get(key, 'x') + str(i)))(key)
    cats = PUNCT_CATS if VARIANT[0] == 'punct' and lang == 'en' else None
    if rotate:
        base = cats or (trees.EN_CATS if lang == 'en' else trees.JA_CATS)
        cats = dict(leaf=base['leaf'][rotate:] + base['leaf'][:rotate], node=base['node'][rotate:] + base['node'][:rotate])
    tb = TreeBuilder(d, lang, word=word, attrs=attrs, heads=heads, labels=labels, prefix=prefix, cats=cats)
    return tb.build(shape)


def results_for(d, lang, shape, focus, n, labels=0, alpha=None):
    """two sentences: the first with two trees over the SAME tokens (n-best), the second with one"""
    from depccg.tree import ScoredTree
    from checks.c18 import _Again
    t1 = build(d, lang, shape, focus, n, labels, 'a', alpha=alpha)
    t2 = build(_Again(d), lang, shape, focus, n, labels + 1, 'a', heads=False, alpha=alpha, rotate=1)     # same tokens, other categories
    for l1, l2 in zip(t1.leaves, t2.leaves):       # as the parser delivers them: the trees of one sentence hold the very same Token objects
        l2.children[0] = l1.children[0]
    t3 = build(d, lang, SHAPES[1][1], (), 0, labels + 2, 'c', alpha=alpha)
    return [[ScoredTree(t1, -1.5), ScoredTree(t2, -2.25)], [ScoredTree(t3, -0.5)]], [(1, t1), (1, t2), (2, t3)]


def heads_of(t):
    """head word index per leaf (root: -1), from the head flags"""
    res = []

    def rec(n):
        if n.is_leaf:
            res.append(-1)
            return len(res) - 1
        if len(n.children) == 1:
            return rec(n.children[0])
        l, r = rec(n.children[0]), rec(n.children[1])
        if n.head_is_left:
            res[r] = l
            return l
        res[l] = r
        return r
    rec(t)
    return res


def cmp_auto(dn, t, ext):
    if t.is_leaf:
        if dn['kind'] != 'L':
            return 'leaf-expected'
        tok = t.children[0]
        if dn['cat'] != spell(t.cat) or dn['cat2'] != spell(t.cat):
            return 'leaf-category'
        if dn['word'] != esc_auto(tok['word']):
            return 'word'
        if ext:
            for k in ('lemma', 'pos', 'entity', 'chunk'):
                if dn[k] != tok.get(k, 'XX'):
                    return 'attribute-' + k
        else:
            if dn['pos'] != tok.get('pos', 'POS') or dn['pos2'] != tok.get('pos', 'POS'):
                return 'pos'
        return None
    if dn['kind'] != 'N' or len(dn['children']) != len(t.children):
        return 'shape'
    if dn['cat'] != spell(t.cat):
        return 'node-category'
    if dn['head'] != ('0' if t.head_is_left else '1'):
        return 'head-flag'
    if ext and dn['rule'] != t.op_string:
        return 'rule-label'
    for a, b in zip(dn['children'], t.children):
        r = cmp_auto(a, b, ext)
        if r:
            return r
    return None


def split_records(out, header_prefix, nheader=1):
    """text formats: records introduced by header lines; returns list of (id text, [lines])"""
    lines = D.ssplit(out, '\n')
    recs = []
    for l in lines:
        if D.sstarts(l, header_prefix):
            recs.append([l, []])
        elif recs:
            recs[-1][1].append(l)
    return recs


def h_text(d, lang, fmt, shape, focus, n, labels=0, variant=None):
    VARIANT[0] = variant
    """auto, auto_extended, ptb, ja, deriv, conll through to_string"""
    from depccg.printer import to_string
    from depccg.lang import set_global_language_to
    set_global_language_to(lang)
    res, flat = results_for(d, lang, shape, focus, n, labels)
    restore = trees.freeze([t for _, t in flat])
    try:
        out = to_string(res, format=fmt)
    except Exception as e:
        return ('%s.render-raises:%s' % (fmt, type(e).__name__),)
    restore()       # the oracle is the derivation handed to the printer
    recs = split_records(out, '# ID=' if fmt == 'conll' else 'ID=')
    if len(recs) != len(flat):
        return ('%s.record-count' % fmt, len(recs))
    for (hdr, body), (sid, t) in zip(recs, flat):
        want = ('# ID=%d' % sid) if fmt == 'conll' else ('ID=%d, log probability=' % sid)
        if not D.sstarts(hdr, want):
            return ('%s.numbering' % fmt, sym_str(hdr))
        body = [l for l in body if len(D.sstrip(l)) and not D.sstarts(l, '# log probability')]
        try:
            why = check_body(fmt, lang, body, t)
        except DecodeError as e:
            why = 'undecodable(%s)' % e
        if why:
            words = [l.children[0]['word'] for l in t.leaves]
            if fmt == 'ptb' and any(len(w) and (w[0] == '(' or w[-1] == ')') for w in words):
                return ('ptb.bracket-token.' + why,)
            if fmt == 'ja':
                vals = [v for l in t.leaves for v in l.children[0].values() if is_sym(v) or True]
                if any(SymStr.find(v, ch) >= 0 for v in vals if isinstance(v, str) for ch in '/{}'):
                    return ('ja.field-character-in-token.' + why.split('(')[0],)
            return ('%s.%s' % (fmt, why), sym_str(sjoin('\n', body)))
    return True


def check_body(fmt, lang, body, t):
    if fmt in ('auto', 'auto_extended'):
        if len(body) != 1:
            return 'line-count'
        return cmp_auto(D.dec_auto(body[0], fmt == 'auto_extended'), t, fmt == 'auto_extended')
    if fmt == 'ptb':
        if len(body) != 1:
            return 'line-count'
        dn = D.dec_ptb(body[0])

        def cmp(dn, t):
            if t.is_leaf:
                if dn['kind'] != 'L' or dn['cat'] != spell(t.cat):
                    return 'leaf-category'
                return None if dn['word'] == t.children[0]['word'] else 'word'
            if dn['kind'] != 'N' or len(dn['children']) != len(t.children) or dn['cat'] != spell(t.cat):
                return 'node'
            for a, b in zip(dn['children'], t.children):
                r = cmp(a, b)
                if r:
                    return r
        return cmp(dn, t)
    if fmt == 'ja':
        if len(body) != 1:
            return 'line-count'
        dn = D.dec_ja(body[0])
        from depccg.utils import normalize

        def cmp(dn, t):
            if t.is_leaf:
                if dn['kind'] != 'L' or dn['cat'] != spell(t.cat):
                    return 'leaf-category'
                tok = t.children[0]
                f = dn['fields']
                if len(f) != 4:
                    return 'leaf-fields'
                w = tok['word']
                for k, v in BR.items():
                    if w == v:
                        w = k
                if f[0] != w or f[1] != w:
                    return 'word'
                poss = [tok.get(k, '*') for k in ('pos', 'pos1', 'pos2', 'pos3')]
                poss = [p for p in poss if p != '*']
                if f[2] != (sjoin('-', poss) if poss else '_'):
                    return 'pos'
                return None
            if dn['kind'] != 'N' or len(dn['children']) != len(t.children) or dn['cat'] != spell(t.cat):
                return 'node'
            if dn['symbol'] != t.op_symbol:
                return 'rule-symbol'
            for a, b in zip(dn['children'], t.children):
                r = cmp(a, b)
                if r:
                    return r
        return cmp(dn, t)
    if fmt == 'deriv':
        dn = D.dec_deriv(body)

        def cmp(dn, t):
            if t.is_leaf:
                if dn['kind'] != 'L' or dn['cat'] != spell(t.cat):
                    return 'leaf-category'
                return None if dn['word'] == t.children[0]['word'] else 'word'
            if dn['kind'] != 'N' or len(dn['children']) != len(t.children) or dn['cat'] != spell(t.cat):
                return 'node'
            if dn['symbol'] != t.op_symbol:
                return 'rule-symbol'
            for a, b in zip(dn['children'], t.children):
                r = cmp(a, b)
                if r:
                    return r
        return cmp(dn, t)
    if fmt == 'conll':
        hs = heads_of(t)
        leaves = t.leaves
        if len(body) != len(leaves):
            return 'row-count'
        frags = []
        for i, (row, leaf) in enumerate(zip(body, leaves)):
            f = D.ssplit(row, '\t')
            if len(f) != 10:
                return 'column-count'
            tok = leaf.children[0]
            if f[0] != str(i + 1):
                return 'index'
            if f[1] != esc_auto(tok['word']):
                return 'word'
            if f[2] != tok.get('lemma', '_') or f[3] != tok.get('pos', '_') or f[4] != tok.get('pos', '_'):
                return 'lemma-or-pos'
            if f[6] != str(hs[i] + 1):
                return 'dependency-head'
            if f[7] != spell(leaf.cat):
                return 'category'
            frags.append(f[9])
        if len([h for h in hs if h == -1]) != 1:
            return 'root-count'
        return cmp_auto(D.dec_auto(sjoin(' ', frags), False), t, False)
    return 'unknown-format'


def h_json(d, lang, shape, focus, n, variant=None):
    VARIANT[0] = variant
    from depccg.printer import to_string
    from depccg.lang import set_global_language_to
    set_global_language_to(lang)
    from engines.pysym.explore import ASCII
    res, flat = results_for(d, lang, shape, focus, n, alpha=ASCII)
    restore = trees.freeze([t for _, t in flat])
    try:
        out = to_string(res, format='json')
        doc = D.dec_json(out)
    except DecodeError as e:
        return ('json.undecodable', str(e))
    except Exception as e:
        return ('json.render-raises:' + type(e).__name__,)
    restore()       # the oracle is the derivation handed to the printer
    if sorted(doc.keys()) != ['1', '2'] or len(doc['1']) != 2 or len(doc['2']) != 1:
        return ('json.numbering',)
    got = doc['1'] + doc['2']
    scores = [-1.5, -2.25, -0.5]

    def cmp(j, t):
        if t.is_leaf:
            tok = t.children[0]
            if j.get('cat') != spell(t.cat):
                return 'leaf-category'
            for k, v in tok.items():
                if j.get(k) != v:
                    return 'attribute-' + k
            if set(j.keys()) - {'log_prob'} != set(tok.keys()) | {'cat'}:
                return 'leaf-keys'
            return None
        if j.get('cat') != spell(t.cat) or j.get('type') != t.op_string or len(j.get('children', [])) != len(t.children):
            return 'node'
        for a, b in zip(j['children'], t.children):
            r = cmp(a, b)
            if r:
                return r
    for j, (sid, t), sc in zip(got, flat, scores):
        if j.get('log_prob') != sc:
            return ('json.log_prob',)
        r = cmp(j, t)
        if r:
            return ('json.' + r,)
    return True


_EN_FUNCTOR = {'fa': 'fa', 'ba': 'ba', 'fc': 'fc', 'fx': 'fc', 'bx': 'bxc', 'gfc': 'gfc', 'gbx': 'gbx', 'rp': 'rp', 'lp': 'lx', 'conj': 'conj'}
_JA_FUNCTOR = {'SSEQ': 'sseq', '>': 'fa', '<': 'ba', '>B': 'fc', '<B1': 'bc1', '<B2': 'bc2', '<B3': 'bc3', '<B4': 'bc4', '>Bx1': 'fx1', '>Bx2': 'fx2', '>Bx3': 'fx3',
               'ADNext': 'adnext', 'ADNint': 'adnint', 'ADV0': 'adv0', 'ADV1': 'adv1', 'ADV2': 'adv2', 'OTHER': 'other'}


def h_prolog(d, lang, shape, focus, n, variant=None):
    VARIANT[0] = variant
    from depccg.printer import to_string
    from depccg.lang import set_global_language_to
    set_global_language_to(lang)
    labels = 0 if lang == 'en' else 0
    res, flat = results_for(d, lang, shape, focus, n, labels)
    restore = trees.freeze([t for _, t in flat])
    # English conj/lp nodes add arguments that depend on the shape of the categories: use application/composition labels here
    try:
        out = to_string(res, format='prolog')
    except Exception as e:
        return ('prolog.render-raises:' + type(e).__name__,)
    restore()       # the oracle is the derivation handed to the printer
    try:
        clauses = D.prolog_terms(out)
    except DecodeError as e:
        return ('prolog.undecodable', str(e))
    if len(clauses) != len(flat):
        return ('prolog.clause-count', len(clauses))

    def leaves(term, out):
        if 'f' in term:
            if term['f'] == 't':
                out.append(term)
            else:
                for a in term['args']:
                    leaves(a, out)
        return out

    def internal(term, out):
        if 'f' in term and term['f'] != 't':
            out.append(term)
            for a in term['args']:
                internal(a, out)
        return out
    for cl, (sid, t) in zip(clauses, flat):
        if cl.get('f') != 'ccg' or len(cl['args']) != 2 or cl['args'][0].get('raw') != str(sid):
            return ('prolog.numbering',)
        body = cl['args'][1]
        ls = leaves(body, [])
        if len(ls) != len(t.leaves):
            return ('prolog.leaf-count', len(ls))
        for lt, leaf in zip(ls, t.leaves):
            tok = leaf.children[0]
            a = lt['args']
            if len(a) != 6:
                return ('prolog.leaf-arity',)
            want_cat = D.spell_prolog_en(leaf.cat) if lang == 'en' else D.spell_prolog_ja(leaf.cat)
            if a[0].get('raw') != want_cat:
                return ('prolog.leaf-category', sym_str(a[0].get('raw')), want_cat)
            if lang == 'en':
                want = [tok['word'], tok.get('lemma', 'XX'), tok.get('pos', 'XX'), tok.get('chunk', 'XX'), tok.get('entity', 'XX')]
            else:
                tags = [tok.get(k, '*') for k in ('pos', 'pos1', 'pos2', 'pos3')]
                pos_text = '*' if all(tg == '*' for tg in tags) else sjoin('/', tags)      # four absent tags are written as one *
                want = [tok.get('surf', tok['word']), tok.get('base', '*'), pos_text, tok.get('inflectionForm', '*'), tok.get('inflectionType', '*')]
            for x, w, nm in zip(a[1:], want, ('word', 'lemma-or-base', 'pos', 'chunk-or-form', 'entity-or-type')):
                if 'q' not in x:
                    return ('prolog.attribute-not-quoted.' + nm,)
                if x['q'] != w:
                    return ('prolog.attribute-differs.' + nm, sym_str(x['q']))
        ins = internal(body, [])
        nodes = [x for x in trees.walk(t) if not x.is_leaf]
        if len(ins) != len(nodes):
            return ('prolog.node-count', len(ins), len(nodes))
        for term, nd in zip(ins, nodes):
            if lang == 'en':
                want = 'lx' if len(nd.children) == 1 else _EN_FUNCTOR.get(nd.op_string)
                wc = D.spell_prolog_en(nd.cat)
            else:
                want = _JA_FUNCTOR.get(nd.op_symbol)
                wc = D.spell_prolog_ja(nd.cat)
            if term['f'] != want:
                return ('prolog.functor', sym_str(term['f']), want)
            if term['args'][0].get('raw') != wc:
                return ('prolog.node-category', sym_str(term['args'][0].get('raw')), wc)
    return True


def h_xml(d, shape, focus, n, variant=None):
    VARIANT[0] = variant
    from depccg.printer import to_string
    from depccg.printer.xml import xml_of
    from depccg.lang import set_global_language_to
    set_global_language_to('en')
    res, flat = results_for(d, 'en', shape, focus, n)
    restore = trees.freeze([t for _, t in flat])
    try:
        if env.SYMBOLIC:
            root = xml_of(res)
        else:
            from lxml import etree
            root = etree.fromstring(to_string(res, format='xml').encode('utf-8'))
    except Exception as e:
        return ('xml.render-raises:' + type(e).__name__,)
    restore()       # the oracle is the derivation handed to the printer
    ccgs = [c for c in root if c.tag == 'ccg']
    if root.tag != 'candc' or len(ccgs) != len(flat):
        return ('xml.record-count',)
    ids = [(1, 1), (1, 2), (2, 1)]
    for c, (sid, t), (s, k) in zip(ccgs, flat, ids):
        if c.get('sentence') != str(s) or c.get('id') != str(k):
            return ('xml.numbering',)
        if len(c) != 1:
            return ('xml.root-count',)
        counter = [0]

        def cmp(e, t):
            if t.is_leaf:
                tok = t.children[0]
                if e.tag != 'lf' or e.get('cat') != spell(t.cat) or e.get('span') != '1' or e.get('start') != str(counter[0]):
                    return 'leaf'
                counter[0] += 1
                for kk, v in tok.items():
                    if e.get(kk) != v:
                        return 'attribute-' + kk
                return None
            if e.tag != 'rule' or e.get('type') != t.op_string or e.get('cat') != spell(t.cat) or len(e) != len(t.children):
                return 'node'
            for a, b in zip(e, t.children):
                r = cmp(a, b)
                if r:
                    return r
        r = cmp(c[0], t)
        if r:
            return ('xml.' + r,)
    return True


def h_jigg(d, lang, shape, focus, n, variant=None):
    VARIANT[0] = variant
    from depccg.printer import to_string
    from depccg.printer.jigg_xml import to_jigg_xml
    from depccg.lang import set_global_language_to
    set_global_language_to(lang)
    res, flat = results_for(d, lang, shape, focus, n)
    restore = trees.freeze([t for _, t in flat])
    try:
        if env.SYMBOLIC:
            root = to_jigg_xml(res, use_symbol=(lang == 'ja'))
        else:
            from lxml import etree
            root = etree.fromstring(to_string(res, format='jigg_xml').encode('utf-8'))
    except Exception as e:
        return ('jigg.render-raises:' + type(e).__name__,)
    restore()       # the oracle is the derivation handed to the printer
    sents = root[0][0].xpath('sentence')
    if len(sents) != 2:
        return ('jigg.sentence-count',)
    per_sent = [[flat[0][1], flat[1][1]], [flat[2][1]]]
    scores = [[-1.5, -2.25], [-0.5]]
    for sent, ts, scs in zip(sents, per_sent, scores):
        toks = sent.xpath('.//token')
        first = ts[0]
        if len(toks) != len(first.leaves):
            return ('jigg.token-count',)
        for i, (te, leaf) in enumerate(zip(toks, first.leaves)):
            tok = leaf.children[0]
            if te.get('start') != str(i) or te.get('cat') != spell(leaf.cat):
                return ('jigg.token-start-or-cat',)
            for k, v in tok.items():
                kk = {'word': 'surf', 'lemma': 'base'}.get(k, k)
                if k == 'surf' and 'word' in tok:
                    continue
                if k == 'base' and 'lemma' in tok:
                    continue
                if te.get(kk) != v:
                    return ('jigg.token-attribute-' + k,)
        ccgs = sent.xpath('./ccg')
        if len(ccgs) != len(ts):
            return ('jigg.ccg-count',)
        for ccg, t, sc in zip(ccgs, ts, scs):
            spans = {s.get('id'): s for s in ccg.xpath('./span')}
            if float(ccg.get('score')) != sc:
                return ('jigg.score',)
            tokid = [te.get('id') for te in toks]
            pos = [0]

            def cmp(sid, t):
                e = spans.get(sid)
                if e is None:
                    return 'dangling-reference'
                if e.get('category') != D.spell_jigg(t.cat):
                    return 'category'
                b = pos[0]
                if t.is_leaf:
                    if e.get('terminal') != tokid[pos[0]]:
                        return 'terminal'
                    pos[0] += 1
                else:
                    kids = e.get('child').split(' ')
                    if len(kids) != len(t.children):
                        return 'arity'
                    if e.get('rule') != (t.op_symbol if lang == 'ja' else t.op_string):
                        return 'rule'
                    for k, c in zip(kids, t.children):
                        r = cmp(k, c)
                        if r:
                            return r
                if e.get('begin') != str(b) or e.get('end') != str(pos[0]):
                    return 'offsets'
                return None
            r = cmp(ccg.get('root'), t)
            if r:
                return ('jigg.' + r,)
    return True


def h_html(d, lang, shape, focus, n, variant=None):
    VARIANT[0] = variant
    from depccg.printer import to_string
    from depccg.lang import set_global_language_to
    set_global_language_to(lang)
    res, flat = results_for(d, lang, shape, focus, n)
    restore = trees.freeze([t for _, t in flat])
    try:
        out = to_string(res, format='html')
        ev = D.dec_html_events(out)
    except DecodeError as e:
        return ('html.undecodable', str(e))
    except Exception as e:
        return ('html.render-raises:' + type(e).__name__,)
    restore()       # the oracle is the derivation handed to the printer
    want = []

    def rec(t):
        if t.is_leaf:
            want.extend([('word', t.children[0]['word']), ('cat', spell(t.cat)), ('label', 'lex')])
        else:
            for c in t.children:
                rec(c)
            want.extend([('cat', spell(t.cat)), ('label', t.op_string)])
    last = None
    for sid, t in flat:
        if sid != last:
            want.append(('id', sjoin(' ', [str(sid) + ':'] + [l.children[0]['word'] for l in [x for x in flat if x[0] == sid][0][1].leaves])))
            last = sid
        want.append(('prob', None))
        rec(t)
    if len(ev) != len(want):
        return ('html.event-count', len(ev), len(want))
    for (k1, v1), (k2, v2) in zip(ev, want):
        if k1 != k2:
            return ('html.structure', k1, k2)
        if v2 is not None and v1 != v2:
            if k1 == 'cat' and not all(ch.isalnum() or ch in '\\/()[]_' for ch in v2):
                return ('html.category-with-punctuation-lost', v2)
            return ('html.%s-differs' % k1, sym_str(v1), sym_str(v2))
    return True


def obligations(tier):
    q = tier == 'quick'
    en_attrs = [('word',), ('lemma',), ('pos',), ('entity', 'chunk')]
    ja_attrs = [('word',), ('base',), ('pos', 'pos1'), ('inflectionForm',)]
    shapes = [SHAPES[1][0], SHAPES[2][0], SHAPES[2][1], SHAPES[3][0], SHAPES[3][2]] if q else [s for k in (1, 2, 3) for s in SHAPES[k]]
    for lang, fmts in (('en', ('auto', 'auto_extended', 'ptb', 'deriv', 'conll')), ('ja', ('auto', 'ja', 'deriv', 'conll', 'ptb'))):
        for fmt in fmts:
            for s in shapes:
                attrs = [('word',)] if fmt in ('ptb', 'deriv') else ([('word',), ('pos',)] if fmt in ('auto',) else (en_attrs if lang == 'en' else ja_attrs))
                if fmt == 'ja':
                    attrs = [('word',), ('pos', 'pos1')]
                if fmt == 'conll':
                    attrs = [('word',), ('lemma', 'pos')]
                for focus in attrs:
                    for n in ((1, 2) if nleaves(s) <= 2 or not q else (1,)):
                        if n == 2 and len(focus) > 1 and q:
                            continue
                        yield Obligation('C07.%s[%s,%s,%s=%d]' % (fmt, lang, shape_name(s), '+'.join(focus), n), 'h_text',
                                         dict(lang=lang, fmt=fmt, shape=s, focus=list(focus), n=n), cost=n * 3 + nleaves(s))
    for lang in ('en', 'ja'):
        attrs = en_attrs if lang == 'en' else ja_attrs
        for s in shapes:
            for focus in attrs:
                for n in ((1, 2) if nleaves(s) == 1 else (1,)):
                    yield Obligation('C07.json[%s,%s,%s=%d]' % (lang, shape_name(s), '+'.join(focus), n), 'h_json', dict(lang=lang, shape=s, focus=list(focus), n=n), cost=8)
                    yield Obligation('C07.prolog[%s,%s,%s=%d]' % (lang, shape_name(s), '+'.join(focus), n), 'h_prolog', dict(lang=lang, shape=s, focus=list(focus), n=n), cost=8)
                    yield Obligation('C07.jigg_xml[%s,%s,%s=%d]' % (lang, shape_name(s), '+'.join(focus), n), 'h_jigg', dict(lang=lang, shape=s, focus=list(focus), n=n), cost=5)
                    if lang == 'en':
                        yield Obligation('C07.xml[%s,%s=%d]' % (shape_name(s), '+'.join(focus), n), 'h_xml', dict(shape=s, focus=list(focus), n=n), cost=5)
            yield Obligation('C07.html[%s,%s,word=1]' % (lang, shape_name(s)), 'h_html', dict(lang=lang, shape=s, focus=['word'], n=1), cost=8)
    # punctuation categories (, conj . ; : LRB) at the leaves
    s = SHAPES[3][0]
    for fmt in ('auto', 'auto_extended', 'ptb', 'deriv', 'conll'):
        yield Obligation('C07.%s[en,%s,punctuation categories]' % (fmt, shape_name(s)), 'h_text', dict(lang='en', fmt=fmt, shape=s, focus=['word'], n=1, variant='punct'), cost=5)
    for name, hn in (('json', 'h_json'), ('prolog', 'h_prolog'), ('jigg_xml', 'h_jigg'), ('html', 'h_html')):
        yield Obligation('C07.%s[en,%s,punctuation categories]' % (name, shape_name(s)), hn, dict(lang='en', shape=s, focus=['word'], n=1, variant='punct'), cost=5)
    yield Obligation('C07.xml[%s,punctuation categories]' % shape_name(s), 'h_xml', dict(shape=s, focus=['word'], n=1, variant='punct'), cost=5)
    # sentences whose tokens are content-equal
    for fmt in ('auto', 'conll', 'deriv'):
        yield Obligation('C07.%s[en,%s,content-equal tokens]' % (fmt, shape_name(s)), 'h_text', dict(lang='en', fmt=fmt, shape=s, focus=[], n=0, variant='dup'), cost=3)
    for name, hn in (('json', 'h_json'), ('jigg_xml', 'h_jigg'), ('prolog', 'h_prolog')):
        yield Obligation('C07.%s[en,%s,content-equal tokens]' % (name, shape_name(s)), hn, dict(lang='en', shape=s, focus=[], n=0, variant='dup'), cost=3)
    yield Obligation('C07.xml[%s,content-equal tokens]' % shape_name(s), 'h_xml', dict(shape=s, focus=[], n=0, variant='dup'), cost=3)
