"""C16 — the supertag beam is honoured."""
from lib import search as S
from checks import c01

FUNCTIONS = c01.FUNCTIONS + ['the beam loop of parse_sentence (threshold, std::exp comparison, pruning_size pops) with exp modelled exactly for exp/exp comparisons']
BOUNDS = {
    'quick': 'n = 1 with 4 free tags (G6) and n = 2 with 2 free tags per word (G5, G3c); pruning_size in {1,2,3}; beta filter on with beta in {0.5, 0.05, 1e-5} and off; all tag scores integer solver variables; per path: every leaf of every returned tree is within the statement\'s beam, and a failed parse implies no derivation lies inside the (tie-strict) beam',
    'thorough': 'adds n = 2 with 3 free tags on one word, rows flattened far below (tags constrained < all others by the dictionary value)',
}
OUTSIDE = c01.OUTSIDE + '; rounding of exp() within 0.004 of the beta boundary (integer scores keep s - best - ln(beta) away from 0); tag scores between -200 and -100 (denormal range of expf)'
ASSUMPTIONS = c01.ASSUMPTIONS + ['with the beta filter on, tag scores are either in [-100, 0] or flattened (<= -200, the category dictionary\'s huge negative value): expf is modelled with its float32 underflow to 0 below ln(2^-150)',
                                 'beam as stated: fewer than pruning_size tags of the word score strictly higher, and (filter on) s >= s_best + ln(beta); completeness is demanded for the tie-strict beam only (ties at the cut are implementation-defined)']


def obligations(tier):
    q = tier == 'quick'
    obs = []
    for p in (1, 2, 3):
        obs.append(S.SOb('C16.beam[G6,n=1,tags=4,prune=%d,filter=off]' % p, S.G6(), 1, pruning=p, penalty='sym'))
    for beta in (0.5, 0.05, 1e-5):
        obs.append(S.SOb('C16.beam[G6,n=1,tags=4,prune=4,beta=%g]' % beta, S.G6(), 1, pruning=4, penalty='sym', use_beta=True, beta=beta, lo=-100))
    # rows partly flattened by the category dictionary (value <= -200: its probability is 0 in float32)
    for flat in ([(0, 1)], [(0, 0), (0, 3)]):
        obs.append(S.SOb('C16.beam[G6,n=1,tags=4,prune=4,beta=1e-05,flattened=%s]' % [c for _, c in flat], S.G6(), 1, pruning=4, penalty='sym', use_beta=True, beta=1e-5, lo=-100, flat=flat))
    # the only root-capable tag is flattened: the sentence must fail; and an n-best list must not be filled up with flattened tags
    g6r = dict(S.G6(), name='G6r', roots=[1])
    obs.append(S.SOb('C16.beam[G6r (only tag 1 is a root),n=1,tags=4,prune=4,beta=1e-05,flattened=[1]]', g6r, 1, pruning=4, penalty='sym', use_beta=True, beta=1e-5, lo=-100, flat=[(0, 1)]))
    obs.append(S.SOb('C16.beam[G6,n=1,tags=4,prune=4,beta=1e-05,flattened=[1,3],nbest=3]', S.G6(), 1, pruning=4, penalty='sym', use_beta=True, beta=1e-5, lo=-100, flat=[(0, 1), (0, 3)], nbest=3))
    obs.append(S.SOb('C16.beam[G6,n=1,tags=4,prune=2,beta=0.05]', S.G6(), 1, pruning=2, penalty='sym', use_beta=True, beta=0.05, lo=-100))
    obs.append(S.SOb('C16.beam[G5,n=2,tags=2,prune=1,filter=off]', S.G5(True), 2, pruning=1, penalty='0'))
    obs.append(S.SOb('C16.beam[G5,n=2,tags=2,prune=2,beta=0.5]', S.G5(True), 2, pruning=2, penalty='0', use_beta=True, beta=0.5, lo=-100))
    obs.append(S.SOb('C16.beam[G5r,n=2,tags=2,prune=2,beta=0.05]', S.G5(False), 2, pruning=2, penalty='0', use_beta=True, beta=0.05, lo=-100))
    obs.append(S.SOb('C16.beam[G3c,n=2,tags=2,prune=1,filter=off]', S.G3(True), 2, pruning=1, penalty='sym'))
    if not q:
        obs.append(S.SOb('C16.beam[G3c,n=2,tags=2,prune=2,beta=0.05]', S.G3(True), 2, pruning=2, penalty='sym', use_beta=True, beta=0.05, lo=-100, max_seconds=450))
        obs.append(S.SOb('C16.beam[G6,n=1,tags=4,prune=3,beta=1e-5,flattened=[2,3]]', S.G6(), 1, pruning=3, penalty='sym', use_beta=True, beta=1e-5, lo=-100, flat=[(0, 2), (0, 3)]))
    return obs


def forwarding_stage():
    """the beam configuration requested from depccg.parsing.run is the one the search works with: the keyword arguments that reach
    depccg._parsing.run, completed with the defaults init_config (parsing.pyx) applies to missing keys, equal the request"""
    import os
    import re
    import sys
    import types
    from engines.pysym import hook
    src = open(os.path.join(hook.REPO, 'depccg', 'parsing.pyx'), encoding='utf-8').read()
    defaults = {k: eval(v) for k, v in re.findall(r"kwargs\.pop\('(\w+)',\s*([^)]+)\)", src)}
    got = []
    m = types.ModuleType('depccg._parsing')
    m.run = lambda doc, scores, cats, bf, uf, roots, process_id=0, **kw: got.append(kw) or [[('x',)] for _ in doc]
    sys.modules['depccg._parsing'] = m
    import depccg
    depccg._parsing = m
    import depccg.parsing as P
    import numpy
    P.__dict__['numpy'] = numpy
    from depccg.cat import Category
    from depccg.types import Token, ScoringResult
    cats = [Category.parse('NP'), Category.parse('N')]
    doc = [[Token(word='a')], [Token(word='b'), Token(word='c')]]
    srs = [ScoringResult(numpy.zeros((len(t), 2), dtype=numpy.float32), numpy.zeros((len(t), len(t) + 1), dtype=numpy.float32)) for t in doc]
    bad, n = [], 0
    for use_beta in (True, False):
        for beta in (0.5, 1e-5):
            for pruning in (1, 50):
                for nbest in (1, 3):
                    for unary_penalty in (0.1, 0.0):
                        for max_step in (10, 10000000):
                            req = dict(use_beta=use_beta, beta=beta, pruning_size=pruning, nbest=nbest, unary_penalty=unary_penalty, max_step=max_step)
                            del got[:]
                            P.run(doc, srs, cats, [cats[0]], lambda x, y: [], lambda x: [], processes=1, **req)
                            n += 1
                            eff = dict(defaults)
                            eff.update({k: v for k, v in got[0].items() if k in req})
                            for k, v in req.items():
                                if k == 'beta' and not eff.get('use_beta', True) and not use_beta:
                                    continue          # beta is irrelevant when the filter is off on both sides
                                if eff.get(k) != v:
                                    bad.append(('C16.configuration-not-forwarded.' + k, dict(requested=req, effective={kk: eff.get(kk) for kk in req})))
    return dict(configurations=n, pyx_defaults={k: repr(v) for k, v in defaults.items()}), bad


def main(tier):
    import json
    import os
    from lib import framework
    rc = _search_main(tier)
    info, bad = forwarding_stage()
    EVD = os.environ.get('VERIF_EVIDENCE_DIR') or os.path.join(framework.VERIF, 'evidence')
    p = os.path.join(EVD, 'C16.json')
    ev = json.load(open(p))
    ev['coverage']['configuration_forwarding'] = info
    if bad:
        rdir = os.path.join(framework.VERIF, 'replays', 'C16')
        os.makedirs(rdir, exist_ok=True)
        path = os.path.join(rdir, 'forwarding.json')
        json.dump(dict(property='C16', engine='ground', bad=bad[:10]), open(path, 'w'), indent=1)
        ev['violations'] = ev.get('violations', 0) + 1
        print('  counterexample: %s %r' % (bad[0][0], bad[0][1]))
        print('VIOLATION property=C16 replay=%s' % path)
        rc = 1
    json.dump(ev, open(p, 'w'), indent=1)
    return rc


def _search_main(tier):
    return S.run_search_check('C16', tier, obligations(tier), ('C16.',), FUNCTIONS, BOUNDS[tier], OUTSIDE, ASSUMPTIONS,
                              records_for_validation=True, record_every=(5 if tier == 'quick' else 10))
