"""Independent, whitespace-tolerant decoders of depccg's output formats (C07).  Each returns the abstract derivation the format
carries.  They work on plain and symbolic text (string tests fork under Engine P)."""
from engines.pysym.core import SymStr, sym_join, sjoin, chars_of, mk, truth, char_eq, is_sym, sym_str


class DecodeError(Exception):
    pass


def ssplit(s, sep=None):
    return SymStr.split(s, sep)


def sfind(s, sub, start=0):
    return SymStr.find(s, sub, start)


def sstrip(s, chars=None):
    return SymStr.strip(s, chars)


def sstarts(s, p):
    return SymStr.startswith(s, p)


def sends(s, p):
    return SymStr.endswith(s, p)


def sreplace(s, a, b):
    return SymStr.replace(s, a, b)


def fields(s):
    return [f for f in ssplit(s, ' ') if len(f)]


# ---- independent category spellers -------------------------------------------------------------------------------------------

def spell(cat):
    """canonical text from the category's structure"""
    if cat.is_functor:
        def w(c):
            return '(' + spell(c) + ')' if c.is_functor else spell(c)
        return w(cat.left) + cat.slash + w(cat.right)
    f = cat.feature
    if hasattr(f, 'kv1'):
        ft = ','.join('%s=%s' % kv for kv in (f.kv1, f.kv2, f.kv3))
    else:
        ft = f.value or ''
    return cat.base + ('[' + ft + ']' if ft else '')


def spell_jigg(cat):
    def a(c):
        f = c.feature
        if hasattr(f, 'kv1'):
            return spell(c)
        return c.base if f.value is None else '%s[%s=true]' % (c.base, f.value)

    def w(c):
        return '(' + spell_jigg(c) + ')' if c.is_functor else a(c)
    if cat.is_functor:
        return w(cat.left) + cat.slash + w(cat.right)
    return a(cat)


def spell_prolog_en(cat):
    if cat.is_functor:
        return '(' + spell_prolog_en(cat.left) + cat.slash + spell_prolog_en(cat.right) + ')'
    b = cat.base.lower()
    names = {'.': 'period', ',': 'comma', ':': 'colon', ';': 'semicolon'}
    if b in names:
        return names[b]
    v = getattr(cat.feature, 'value', None)
    ft = spell(cat)[len(cat.base):][1:-1] if spell(cat) != cat.base else ''
    return b + (':' + ft if ft else '')


def spell_prolog_ja(cat):
    if cat.is_functor:
        return '(' + spell_prolog_ja(cat.left) + cat.slash + spell_prolog_ja(cat.right) + ')'
    b = cat.base.lower()
    f = cat.feature
    if hasattr(f, 'kv1'):
        for k, v in (f.kv1, f.kv2, f.kv3):
            if k == 'case':
                return b + ':' + v.lower()
    return b


# ---- auto / auto_extended ---------------------------------------------------------------------------------------------------

def dec_auto(line, ext=False):
    toks = fields(line)
    pos = [0]

    def nxt():
        if pos[0] >= len(toks):
            raise DecodeError('auto: text ends early')
        t = toks[pos[0]]
        pos[0] += 1
        return t

    def node():
        t = nxt()
        if t == '(<T':
            cat = nxt()
            rule = nxt() if ext else None
            head = nxt()
            nch = nxt()
            if not sends(nch, '>'):
                raise DecodeError('auto: node header not closed')
            k = int(sym_str(nch[:-1]))
            kids = [node() for _ in range(k)]
            if nxt() != ')':
                raise DecodeError('auto: node not closed')
            return dict(kind='N', cat=cat, head=head, rule=rule, children=kids)
        if t == '(<L':
            if ext:
                cat, word, lemma, p, ent, chunk, cat2 = [nxt() for _ in range(7)]
                d = dict(kind='L', cat=cat, word=word, lemma=lemma, pos=p, entity=ent, chunk=chunk)
            else:
                cat, p, p2, word, cat2 = [nxt() for _ in range(5)]
                d = dict(kind='L', cat=cat, word=word, pos=p, pos2=p2)
            if not sends(cat2, '>)'):
                raise DecodeError('auto: leaf not closed')
            d['cat2'] = cat2[:-2]
            return d
        raise DecodeError('auto: unexpected token')
    r = node()
    if pos[0] != len(toks):
        raise DecodeError('auto: trailing text')
    return r


# ---- ptb -------------------------------------------------------------------------------------------------------------------

def dec_ptb(line):
    items = fields(line)
    if not items or items[0] != '(ROOT':
        raise DecodeError('ptb: no ROOT')
    stack = [dict(kind='ROOT', children=[])]
    done_root = None
    for it in items[1:]:
        if done_root is not None:
            raise DecodeError('ptb: text after the closing bracket of ROOT')
        if sstarts(it, '(') and not sends(it, ')'):
            stack.append(dict(kind='N', cat=it[1:], children=[]))
            continue
        # leaf item: word followed by closers
        cs = chars_of(it)
        k = len(cs)
        while k > 0 and truth(char_eq(cs[k - 1], 41)):
            k -= 1
        word, closers = it[:k], len(cs) - k
        if len(stack) < 2 or closers < 1:
            raise DecodeError('ptb: leaf outside a node')
        top = stack[-1]
        if top['children']:
            raise DecodeError('ptb: word inside a node that has children')
        top['kind'] = 'L'
        top['word'] = word
        for _ in range(closers):
            if not stack:
                raise DecodeError('ptb: too many closers')
            done = stack.pop()
            if stack:
                stack[-1]['children'].append(done)
            else:
                done_root = done
    if done_root is None or len(done_root['children']) != 1:
        raise DecodeError('ptb: unbalanced')
    return done_root['children'][0]


# ---- ja ----------------------------------------------------------------------------------------------------------------------

def dec_ja(line):
    cs = chars_of(line)
    pos = [0]

    def peek():
        return cs[pos[0]] if pos[0] < len(cs) else None

    def is_c(c, ch):
        return c is not None and truth(char_eq(c, ord(ch)))

    def skip():
        while is_c(peek(), ' '):
            pos[0] += 1

    def word_until(stops):
        out = []
        while peek() is not None and not any(is_c(peek(), s) for s in stops):
            out.append(peek())
            pos[0] += 1
        return mk(out)

    def node():
        skip()
        if not is_c(peek(), '{'):
            raise DecodeError('ja: { expected')
        pos[0] += 1
        first = word_until(' ')
        skip()
        if is_c(peek(), '{'):
            raise DecodeError('ja: category missing')
        second = word_until(' }')
        skip()
        if is_c(peek(), '{'):
            kids = []
            while is_c(peek(), '{'):
                kids.append(node())
                skip()
            if not is_c(peek(), '}'):
                raise DecodeError('ja: } expected')
            pos[0] += 1
            return dict(kind='N', symbol=first, cat=second, children=kids)
        if not is_c(peek(), '}'):
            raise DecodeError('ja: } expected after leaf')
        pos[0] += 1
        parts = ssplit(second, '/')
        return dict(kind='L', cat=first, fields=parts)
    r = node()
    skip()
    if pos[0] != len(cs):
        raise DecodeError('ja: trailing text')
    return r


# ---- deriv -------------------------------------------------------------------------------------------------------------------

def dec_deriv(text_lines):
    """lines of one derivation (without the ID header)"""
    lines = list(text_lines)
    while lines and len(sstrip(lines[-1])) == 0:
        lines.pop()
    if len(lines) < 2:
        raise DecodeError('deriv: header missing')
    cats, words = fields(lines[0]), fields(lines[1])
    if len(cats) != len(words):
        raise DecodeError('deriv: header lines disagree')
    roots = []
    off = 0
    for c, w in zip(cats, words):
        width = 2 + max(len(c), len(w))
        roots.append(dict(kind='L', cat=c, word=w, span=(off, off + width)))
        off += width
    rest = lines[2:]
    if len(rest) % 2:
        raise DecodeError('deriv: odd number of lines')
    for i in range(0, len(rest), 2):
        bar, catline = rest[i], rest[i + 1]
        cs = chars_of(bar)
        a = 0
        while a < len(cs) and truth(char_eq(cs[a], 32)):
            a += 1
        b = a
        while b < len(cs) and truth(char_eq(cs[b], 45)):
            b += 1
        if b == a:
            raise DecodeError('deriv: no dashes')
        sym = mk(cs[b:])
        inside = [r for r in roots if a <= r['span'][0] and r['span'][1] <= b]
        if not inside or len(inside) > 2:
            raise DecodeError('deriv: %d nodes under a bar' % len(inside))
        # the format carries the tree shape by column alignment only: a rule line spans exactly the columns of its children
        if inside[0]['span'][0] != a or inside[-1]['span'][1] != b:
            raise DecodeError('deriv: rule line [%d,%d) does not span its children [%d,%d)' % (a, b, inside[0]['span'][0], inside[-1]['span'][1]))
        node = dict(kind='N', cat=sstrip(catline), symbol=sym, children=inside, span=(a, b))
        k = roots.index(inside[0])
        roots[k:k + len(inside)] = [node]
    if len(roots) != 1:
        raise DecodeError('deriv: %d roots' % len(roots))
    return roots[0]


# ---- prolog ------------------------------------------------------------------------------------------------------------------

def prolog_terms(text):
    """top-level clauses `ccg(N, term).` -> list of (N text, term).  term = dict(functor, args) | raw text"""
    cs = chars_of(text)
    n = len(cs)

    def is_c(i, ch):
        return i < n and truth(char_eq(cs[i], ord(ch)))

    def ws(i):
        while i < n and (is_c(i, ' ') or is_c(i, '\n') or is_c(i, '\t')):
            i += 1
        return i

    def quoted(i):
        # cs[i] is the opening quote
        out = []
        i += 1
        while True:
            if i >= n:
                raise DecodeError('prolog: unterminated quoted atom')
            if is_c(i, '\\'):
                if i + 1 >= n:
                    raise DecodeError('prolog: dangling backslash')
                if is_c(i + 1, "'") or is_c(i + 1, '\\'):
                    out.append(cs[i + 1])
                    i += 2
                    continue
                raise DecodeError('prolog: invalid escape')
            if is_c(i, "'"):
                return mk(out), i + 1
            out.append(cs[i])
            i += 1

    def term(i):
        i = ws(i)
        if is_c(i, "'"):
            v, i = quoted(i)
            return dict(q=v), i
        # raw run up to a top-level , or ) ; may contain parenthesised category text
        depth = 0
        start = i
        name_end = None
        while i < n:
            if is_c(i, '('):
                if depth == 0 and name_end is None and i > start and _is_name(cs[start:i]):
                    # functor application
                    fname = mk(cs[start:i])
                    args = []
                    i += 1
                    while True:
                        a, i = term(i)
                        args.append(a)
                        i = ws(i)
                        if is_c(i, ','):
                            i += 1
                            continue
                        if is_c(i, ')'):
                            i += 1
                            break
                        raise DecodeError('prolog: , or ) expected')
                    return dict(f=fname, args=args), i
                depth += 1
            elif is_c(i, ')'):
                if depth == 0:
                    break
                depth -= 1
            elif is_c(i, ',') and depth == 0:
                break
            i += 1
        return dict(raw=sstrip(mk(cs[start:i]), ' \n\t')), i
    out = []
    i = 0
    while True:
        i = ws(i)
        if i >= n:
            break
        if is_c(i, ':'):            # directive line
            while i < n and not is_c(i, '\n'):
                i += 1
            continue
        t, i = term(i)
        i = ws(i)
        if not is_c(i, '.'):
            raise DecodeError('prolog: clause not terminated')
        i += 1
        out.append(t)
    return out


def _is_name(cs):
    for c in cs:
        if not isinstance(c, int):
            return False
        if not (chr(c).isalnum() or c == 95):
            return False
    return len(cs) > 0


# ---- json (the subset json.dumps(indent=4) emits) ----------------------------------------------------------------------------

def dec_json(text):
    if not is_sym(text):
        import json
        return json.loads(text)
    cs = chars_of(text)
    n = len(cs)
    pos = [0]

    def is_c(ch):
        return pos[0] < n and truth(char_eq(cs[pos[0]], ord(ch)))

    def ws():
        while pos[0] < n and any(is_c(c) for c in ' \n\t\r'):
            pos[0] += 1

    def string():
        pos[0] += 1
        out = []
        while True:
            if pos[0] >= n:
                raise DecodeError('json: unterminated string')
            if is_c('\\'):
                pos[0] += 1
                c = cs[pos[0]]
                if isinstance(c, int) and chr(c) == 'u':
                    hx = cs[pos[0] + 1:pos[0] + 5]
                    if all(isinstance(h, int) for h in hx):
                        out.append(int(''.join(map(chr, hx)), 16))
                    else:
                        import z3
                        val = 0
                        for h in hx:
                            hv = z3.If(h <= 57, h - 48, h - 87) if not isinstance(h, int) else int(chr(h), 16)
                            val = val * 16 + hv
                        out.append(val)
                    pos[0] += 5
                    continue
                m = {'n': 10, 't': 9, 'r': 13, 'b': 8, 'f': 12}
                if isinstance(c, int) and chr(c) in m:
                    out.append(m[chr(c)])
                else:
                    out.append(c)
                pos[0] += 1
                continue
            if is_c('"'):
                pos[0] += 1
                return _join_surrogates(out)
            out.append(cs[pos[0]])
            pos[0] += 1

    def value():
        ws()
        if is_c('{'):
            pos[0] += 1
            d = {}
            ws()
            if is_c('}'):
                pos[0] += 1
                return d
            while True:
                ws()
                k = string()
                ws()
                if not is_c(':'):
                    raise DecodeError('json: : expected')
                pos[0] += 1
                d[k] = value()
                ws()
                if is_c(','):
                    pos[0] += 1
                    continue
                if is_c('}'):
                    pos[0] += 1
                    return d
                raise DecodeError('json: , or } expected')
        if is_c('['):
            pos[0] += 1
            a = []
            ws()
            if is_c(']'):
                pos[0] += 1
                return a
            while True:
                a.append(value())
                ws()
                if is_c(','):
                    pos[0] += 1
                    continue
                if is_c(']'):
                    pos[0] += 1
                    return a
                raise DecodeError('json: , or ] expected')
        if is_c('"'):
            return string()
        start = pos[0]
        while pos[0] < n and not any(is_c(c) for c in ',]} \n'):
            pos[0] += 1
        import json
        return json.loads(''.join(chr(c) for c in cs[start:pos[0]]))
    v = value()
    ws()
    if pos[0] != n:
        raise DecodeError('json: trailing text')
    return v


def _join_surrogates(out):
    res = []
    i = 0
    while i < len(out):
        c = out[i]
        if i + 1 < len(out) and not isinstance(c, int) and not isinstance(out[i + 1], int):
            import z3
            from engines.pysym.core import E
            if E.must(z3.And(c >= 0xD800, c <= 0xDBFF)):
                res.append(0x10000 + (c - 0xD800) * 1024 + (out[i + 1] - 0xDC00))
                i += 2
                continue
        elif isinstance(c, int) and 0xD800 <= c <= 0xDBFF and i + 1 < len(out) and isinstance(out[i + 1], int):
            res.append(0x10000 + (c - 0xD800) * 1024 + (out[i + 1] - 0xDC00))
            i += 2
            continue
        res.append(c)
        i += 1
    return mk(res)


# ---- html --------------------------------------------------------------------------------------------------------------------

def html_unescape(s):
    for a, b in (('&lt;', '<'), ('&gt;', '>'), ('&quot;', '"'), ('&#x27;', "'"), ('&amp;', '&')):
        s = sreplace(s, a, b)
    return s


def dec_html_events(text):
    """document-order events: ('word', w) ('cat', c) ('label', l) ('id', text) ('prob', text)"""
    ev = []
    i = 0
    marks = [("<mtext mathsize='1.0' mathcolor='Black'>", '</mtext>', 'word'), ("<mtext mathsize='0.8' mathcolor='Black'>", '</mtext>', 'label'),
             ("<mstyle mathcolor='Red'>", '</mstyle>', 'cat'), ('<p>ID=', '</p>', 'id'), ('<p>Log prob=', '</p>', 'prob')]
    while True:
        best = None
        for op, cl, kind in marks:
            k = sfind(text, op, i)
            if k >= 0 and (best is None or k < best[0]):
                best = (k, op, cl, kind)
        if best is None:
            break
        k, op, cl, kind = best
        e = sfind(text, cl, k + len(op))
        if e < 0:
            raise DecodeError('html: element not closed')
        inner = text[k + len(op):e]
        if kind == 'cat':
            # concatenate the text of the <mi> elements
            parts = []
            j = 0
            while True:
                a = sfind(inner, '<mi', j)
                if a < 0:
                    break
                b = sfind(inner, '>', a)
                c = sfind(inner, '</mi>', b)
                parts.append(inner[b + 1:c])
                j = c + 5
            inner = sjoin('', parts)
        ev.append((kind, html_unescape(inner)))
        i = e + len(cl)
    return ev
