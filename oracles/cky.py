"""Independent exhaustive enumeration of derivations (numeric), and the numeric statement of C01/C02/C09/C10/C12/C16 for one
concrete run of the real pipeline (Engine N).  Used to replay solver counterexamples and to validate per-path witnesses."""
import math


def derivations(n, T, binary, unary, roots, tag, dep, penalty, tag_ok=lambda i, c: True):
    """all derivations: list of dict(score, key, leaves=[(i,c)], nodes=preorder [(cat, nchildren, label, head_left)])"""
    btab, utab = {}, {}
    for x, y, c, h, lab in binary:
        btab.setdefault((x, y), []).append((c, bool(h), lab))
    for x, c, lab in unary:
        utab.setdefault(x, []).append((c, lab))

    def closure(cell):
        start = 0
        for _ in range(4):
            end = len(cell)
            for i in range(start, end):
                d = cell[i]
                for c, lab in utab.get(d['cat'], []):
                    cell.append(dict(cat=c, score=d['score'] - penalty, head=d['head'], key='(%d^%s %s)' % (c, lab, d['key']), shape='(%d %s)' % (c, d['shape']), leaves=d['leaves'],
                                     nodes=[(c, 1, lab, True)] + d['nodes']))
            start = end
            if start == len(cell):
                break
    ch = {}
    for i in range(n):
        cell = [dict(cat=c, score=tag[i][c], head=i, key=str(c), shape=str(c), leaves=[(i, c)], nodes=[(c, 0, 'lex', True)]) for c in range(T) if tag_ok(i, c)]
        closure(cell)
        ch[(i, i + 1)] = cell
    for ln in range(2, n + 1):
        for i in range(0, n - ln + 1):
            j = i + ln
            cell = []
            for m in range(i + 1, j):
                for l in ch[(i, m)]:
                    for r in ch[(m, j)]:
                        for c, hl, lab in btab.get((l['cat'], r['cat']), []):
                            h, k = (l, r) if hl else (r, l)
                            cell.append(dict(cat=c, score=l['score'] + r['score'] + dep[k['head']][h['head'] + 1], head=h['head'],
                                             key='(%d%s%s %s %s)' % (c, '<' if hl else '>', lab, l['key'], r['key']), shape='(%d %s %s)' % (c, l['shape'], r['shape']), leaves=l['leaves'] + r['leaves'],
                                             nodes=[(c, 2, lab, hl)] + l['nodes'] + r['nodes']))
            if ln != n:
                closure(cell)
            ch[(i, j)] = cell
    out = []
    for d in ch[(0, n)]:
        if d['cat'] in roots:
            e = dict(d)
            e['score'] = d['score'] + dep[d['head']][0]
            out.append(e)
    return out


def admitted(tagrow, c, pruning, use_beta, beta, strong):
    """the statement's beam for one word; strong: ties count against the tag (then the implementation surely admits it)"""
    s = tagrow[c]
    if strong:
        higher = sum(1 for o, v in enumerate(tagrow) if o != c and v >= s)
    else:
        higher = sum(1 for v in tagrow if v > s)
    if higher >= pruning:
        return False
    if use_beta:
        best = max(tagrow)
        lb = math.log(beta)
        if strong:
            return s >= best + lb + 1e-3
        return s >= best + lb - 1e-3
    return True


def recompute_score(nodes, tag, dep, penalty):
    """score of a delivered tree from its own nodes (cat, nchildren, label, symbol, head_is_left) in preorder"""
    pos = [0]
    tok = [0]

    def rec():
        cat, k = nodes[pos[0]][0], nodes[pos[0]][1]
        hl = nodes[pos[0]][-1]
        pos[0] += 1
        if k == 0:
            i = tok[0]
            tok[0] += 1
            return tag[i][cat], i
        if k == 1:
            s, h = rec()
            return s - penalty, h
        sl, hl_ = rec()
        sr, hr_ = rec()
        if hl:
            return sl + sr + dep[hr_][hl_ + 1], hl_
        return sl + sr + dep[hl_][hr_ + 1], hr_
    s, h = rec()
    return s + dep[h][0]


def check_run(job, sent_index, result, eps=1e-4):
    """numeric statement of the search properties for sentence `sent_index` of a native run.  Returns list of violation kinds."""
    s = job['sentences'][sent_index]
    tag, dep = s['tag'], s['dep']
    n, T = len(tag), job['T']
    cfg = job['config']
    pruning = cfg.get('pruning_size', T)
    use_beta, beta = cfg.get('use_beta', False), cfg.get('beta', 0.5)
    penalty = cfg.get('unary_penalty', 0.0)
    nbest = cfg.get('nbest', 1)
    max_step = cfg.get('max_step', 100000)
    roots = set(job['roots'])
    trees = result['sentences'][sent_index]
    pops = result['pops'][sent_index] if sent_index < len(result['pops']) else []
    bad = []
    ran_out = len(pops) >= max_step
    too_long = n > cfg.get('max_length', 250)
    strong = derivations(n, T, job['binary'], job['unary'], roots, tag, dep, penalty, lambda i, c: admitted(tag[i], c, pruning, use_beta, beta, True))
    for a, b in zip(pops, pops[1:]):
        if b[0] > a[0] + eps:
            bad.append('C01.pop-priority-increases')
            break
    if len(trees) == 1 and trees[0]['placeholder']:
        if strong and not ran_out and not too_long:
            bad.append('C01.failed-although-derivation-exists' if (pruning >= T and not use_beta) else 'C16.failed-although-derivation-in-beam')
            if cfg.get('nbest', 1) > 1 and pruning >= T and not use_beta:
                bad.append('C10.failed-although-derivations-exist')       # asked for k parses, min(k, #derivations) >= 1 are due
        if trees[0]['leaf_cat'] != 'NP':
            bad.append('C02.placeholder-malformed')
        return bad
    if not trees:
        bad.append('C02.empty-result')
        return bad
    allowed = {}
    for d in derivations(n, T, job['binary'], job['unary'], roots, tag, dep, penalty):
        allowed.setdefault(d['shape'], []).append(d)
    keys = []
    for k, t in enumerate(trees):
        if t['placeholder']:
            bad.append('C02.placeholder-among-trees')
            continue
        if not t['tokens_identical']:
            bad.append('C02.leaves-do-not-carry-the-input-tokens')
        ds = allowed.get(t['shape'])
        if ds is None:
            bad.append('C02.tree-not-a-licensed-derivation')
        else:
            for (i, c) in ds[0]['leaves']:
                if not admitted(tag[i], c, pruning, use_beta, beta, False):
                    bad.append('C16.leaf-outside-beam')
            # labels, symbols and head directions are those of a grammar result that creates the node (C12); which of several
            # results with equal category and head created it is decided against the symbolic record (expected labels) by the caller
            got = [(x[0], x[1], x[2], x[3], x[4]) for x in t['nodes']]
            if not any(got == [(x[0], x[1], x[2], '<lex>' if x[1] == 0 else x[2].upper(), x[3]) for x in d['nodes']] for d in ds):
                bad.append('C12.labels-or-heads-differ-from-grammar')
        rs = recompute_score(t['nodes'], tag, dep, penalty)
        if abs(rs - t['score']) > eps:
            bad.append('C09.reported-score-differs')
        if t['key'] in keys:
            bad.append('C10.duplicate-tree')
        keys.append(t['key'])
        if k and t['score'] > trees[k - 1]['score'] + eps:
            bad.append('C10.not-sorted')
    if strong and trees[0]['score'] < max(d['score'] for d in strong) - eps:
        bad.append('C01.better-derivation-exists')
    if nbest > 1 and not ran_out:
        if pruning >= T and not use_beta and len(trees) != min(nbest, sum(len(v) for v in allowed.values())):
            bad.append('C10.wrong-count')
        last = trees[-1]['score']
        for d in strong:
            if d['key'] not in keys and d['score'] > last + eps:
                bad.append('C10.better-derivation-not-returned')
                break
    return sorted(set(bad))
