"""Reference reading of the English combinatory schemata (C03), written from the property statement.
Used only as a predicate over results of the real en.apply_binary_rules.  Works on concrete and symbolic categories
(string comparisons fork under Engine P)."""
from engines.pysym.core import sym_str, char_between, truth


def C():
    from depccg import cat
    return cat


def leaves(c):
    return [c] if c.is_atomic else leaves(c.left) + leaves(c.right)


def fval(f):
    """value of a unary feature (None when absent)"""
    return getattr(f, 'value', None)


def feq(f, g):
    if type(f) is not type(g):
        return False
    if hasattr(f, 'value'):
        a, b = f.value, g.value
        if a is None or b is None:
            return a is None and b is None
        return a == b
    return sym_str(f) == sym_str(g)


def ceq(a, b):
    """exact structural equality"""
    if a.is_atomic != b.is_atomic:
        return False
    if a.is_atomic:
        return a.base == b.base and feq(a.feature, b.feature)
    return a.slash == b.slash and ceq(a.left, b.left) and ceq(a.right, b.right)


def shape_eq(a, b):
    """equal up to features"""
    if a.is_atomic != b.is_atomic:
        return False
    if a.is_atomic:
        return a.base == b.base
    return a.slash == b.slash and shape_eq(a.left, b.left) and shape_eq(a.right, b.right)


def is_var(v):
    return v is not None and v == 'X'


def ignorable(v):
    return v is None or v == 'nb'


def fcompat(f, g):
    v, w = fval(f), fval(g)
    if ignorable(v) or ignorable(w):
        return True
    if is_var(v) or is_var(w):
        return True
    return v == w


def compat(a, b):
    if not shape_eq(a, b):
        return False
    for p, q in zip(leaves(a), leaves(b)):
        if not fcompat(p.feature, q.feature):
            return False
    return True


def inst_eq(res, tmpl, inputs):
    """res equals tmpl up to replacing variable features of tmpl by features occurring in the inputs"""
    if not shape_eq(res, tmpl):
        return False
    pool = [l.feature for i in inputs for l in leaves(i)]
    for r, t in zip(leaves(res), leaves(tmpl)):
        if feq(r.feature, t.feature):
            continue
        if is_var(fval(t.feature)):
            ok = False
            for f in pool:
                if feq(r.feature, f):
                    ok = True
                    break
            if ok:
                continue
        return False
    return True


def features_from_inputs(res, inputs):
    pool = [l.feature for i in inputs for l in leaves(i)]
    for r in leaves(res):
        if fval(r.feature) is None:
            continue
        if not any(feq(r.feature, f) for f in pool):
            return False
    return True


def is_mod(c):
    return c.is_functor and ceq(c.left, c.right)


def sl(c, s):
    return c.is_functor and c.slash == s


def fn(l, s, r):
    return C().Functor(l, s, r)


def text_is(c, t):
    return sym_str(c) == t


def is_punct(x):
    if not x.is_atomic:
        return False
    b = x.base
    if len(b) == 0:
        return False
    first = b[0]
    letter = truth(char_between(first, 65, 90)) or truth(char_between(first, 97, 122))
    if not letter:
        return True
    return b == 'LRB' or b == 'RRB' or b == 'LQU' or b == 'RQU'


def clear_nb(c):
    Cm = C()
    if c.is_functor:
        return Cm.Functor(clear_nb(c.left), c.slash, clear_nb(c.right))
    v = fval(c.feature)
    if v is not None and v == 'nb':
        return Cm.Atom(c.base)
    return c


def bare_n_or_np(c):
    return c.is_atomic and fval(c.feature) is None and (c.base == 'N' or c.base == 'NP')


def justified(r, x, y):
    """None if result r of combining x y (nb-cleared) is justified by the schema its label names, else a reason"""
    lab = r.op_string
    c = r.cat
    if r.head_is_left is not True:
        return 'head-not-left'
    ins = (x, y)
    if lab == 'fa':
        if r.op_symbol != '>':
            return 'fa.symbol'
        if not (sl(x, '/') and compat(x.right, y)):
            return 'fa.premise'
        ok = ceq(c, y) if is_mod(x) else inst_eq(c, x.left, ins)
        return None if ok else 'fa.result'
    if lab == 'ba':
        if r.op_symbol != '<':
            return 'ba.symbol'
        if text_is(x, 'S[dcl]') and text_is(y, 'S[em]\\S[em]'):
            return None if ceq(c, x) else 'ba.special-result'
        if not (sl(y, '\\') and compat(y.right, x)):
            return 'ba.premise'
        ok = ceq(c, x) if is_mod(y) else inst_eq(c, y.left, ins)
        return None if ok else 'ba.result'
    if lab == 'fc':
        if not (sl(x, '/') and sl(y, '/') and compat(x.right, y.left)):
            return 'fc.premise'
        ok = ceq(c, y) if is_mod(x) else inst_eq(c, fn(x.left, '/', y.right), ins)
        return None if ok else 'fc.result'
    if lab == 'bx':
        # backward crossed composition  Y/Z  X\Y  =>  X/Z
        if not (sl(x, '/') and sl(y, '\\') and compat(y.right, x.left)):
            return 'bx.premise'
        if bare_n_or_np(x.left) and bare_n_or_np(y.right):
            return 'bx.over-N-or-NP'
        ok = ceq(c, x) if is_mod(y) else inst_eq(c, fn(y.left, '/', x.right), ins)
        return None if ok else 'bx.result'
    if lab == 'gfc':
        # generalised forward composition  X/Y  (Y/Z)|W  =>  (X/Z)|W
        if not (sl(x, '/') and y.is_functor and sl(y.left, '/') and compat(x.right, y.left.left)):
            return 'gfc.premise'
        ok = ceq(c, y) if is_mod(x) else inst_eq(c, fn(fn(x.left, '/', y.left.right), y.slash, y.right), ins)
        return None if ok else 'gfc.result'
    if lab == 'gbx':
        # generalised backward crossed composition  (Y/Z)|W  X\Y  =>  (X/Z)|W
        if not (x.is_functor and sl(x.left, '/') and sl(y, '\\') and compat(y.right, x.left.left)):
            return 'gbx.premise'
        if bare_n_or_np(x.left.left) and bare_n_or_np(y.right):
            return 'gbx.over-N-or-NP'
        ok = ceq(c, x) if is_mod(y) else inst_eq(c, fn(fn(y.left, '/', x.left.right), x.slash, x.right), ins)
        return None if ok else 'gbx.result'
    if lab == 'conj':
        if not x.is_atomic:
            return 'conj.premise'
        if (text_is(x, ',') or text_is(x, ';') or text_is(x, 'conj')) and ceq(c, fn(y, '\\', y)):
            return None
        if text_is(x, 'conj') and text_is(y, 'NP\\NP') and ceq(c, y):
            return None
        return 'conj'
    if lab == 'lp':
        if r.op_symbol == '<*>':
            # the listed type-changing rules
            if text_is(x, ',') and (text_is(y, 'S[ng]\\NP') or text_is(y, 'S[pss]\\NP')) and text_is(c, '(S\\NP)\\(S\\NP)'):
                return None
            if text_is(x, ',') and text_is(y, 'S[dcl]/S[dcl]') and text_is(c, '(S\\NP)/(S\\NP)'):
                return None
            return 'lp.unlisted-type-change'
        if is_punct(x) and ceq(c, y):
            return None
        if (text_is(x, 'LQU') or text_is(x, 'LRB')) and ceq(c, fn(y, '\\', y)):
            return None
        return 'lp'
    if lab == 'rp':
        return None if is_punct(y) and ceq(c, x) else 'rp'
    return 'unknown-label:' + sym_str(lab)


def has(results, lab, cat):
    for r in results:
        if r.op_string == lab and ceq(r.cat, cat):
            return True
    return False


def converse(results, x, y):
    """schemata whose premises hold with identical matched parts must yield their result.  Returns list of missing."""
    missing = []
    if sl(x, '/') and ceq(x.right, y) and not has(results, 'fa', x.left):
        missing.append('fa')
    if sl(y, '\\') and ceq(y.right, x) and not has(results, 'ba', y.left):
        missing.append('ba')
    if sl(x, '/') and sl(y, '/') and ceq(x.right, y.left) and not has(results, 'fc', fn(x.left, '/', y.right)):
        missing.append('fc')
    if sl(x, '/') and sl(y, '\\') and ceq(y.right, x.left) and not (text_is(x.left, 'N') or text_is(x.left, 'NP')):
        if not has(results, 'bx', fn(y.left, '/', x.right)):
            missing.append('bx')
    if sl(x, '/') and y.is_functor and sl(y.left, '/') and ceq(x.right, y.left.left):
        if not has(results, 'gfc', fn(fn(x.left, '/', y.left.right), y.slash, y.right)):
            missing.append('gfc')
    if x.is_functor and sl(x.left, '/') and sl(y, '\\') and ceq(y.right, x.left.left) \
            and not (text_is(y.right, 'N') or text_is(y.right, 'NP')):
        if not has(results, 'gbx', fn(fn(y.left, '/', x.left.right), x.slash, x.right)):
            missing.append('gbx')
    return missing
