"""Reference reading of the Japanese combinatory schemata and unary labels (C04), written from the property statement."""
from engines.pysym.core import sym_str
from oracles.schemata_en import leaves, shape_eq, sl, fn, ceq, feq, is_mod


def triple(f):
    if hasattr(f, 'kv1'):
        return (f.kv1, f.kv2, f.kv3)
    return None


def is_varval(v):
    return len(v) > 0 and v[0] == 'X'


def subsumes(f, g):
    """f is g, or same keys and every value of f equals g's or is a variable (position-wise)"""
    tf, tg = triple(f), triple(g)
    if tf is None or tg is None:
        return feq(f, g)
    if feq(f, g):
        return True
    for (k1, _), (k2, _) in zip(tf, tg):
        if not (k1 == k2):
            return False
    for (_, v), (_, w) in zip(tf, tg):
        if not (v == w or is_varval(v)):
            return False
    return True


def fcompat(f, g):
    return subsumes(f, g) or subsumes(g, f)


def compat(a, b):
    if not shape_eq(a, b):
        return False
    for p, q in zip(leaves(a), leaves(b)):
        if not fcompat(p.feature, q.feature):
            return False
    return True


def has_var(f):
    t = triple(f)
    return t is not None and any(is_varval(v) for _, v in t)


def inst_eq(res, tmpl, inputs):
    if not shape_eq(res, tmpl):
        return False
    pool = [l.feature for i in inputs for l in leaves(i)]
    for r, t in zip(leaves(res), leaves(tmpl)):
        if feq(r.feature, t.feature):
            continue
        if has_var(t.feature) and any(feq(r.feature, f) for f in pool):
            continue
        return False
    return True


def spine(c, k):
    args = []
    for _ in range(k):
        if not c.is_functor:
            return None, None
        args.append((c.slash, c.right))
        c = c.left
    return c, args


def rebuild(core, args):
    for s, a in reversed(args):
        core = fn(core, s, a)
    return core


def in_roots(c, roots):
    return any(ceq(c, r) for r in roots)


SYMBOL_OF = {'>': 'fa', '<': 'ba', '>B': 'fc', '<B1': 'bx', '<B2': 'bx', '<B3': 'bx', '<B4': 'bx',
             '>Bx1': 'fx', '>Bx2': 'fx', '>Bx3': 'fx', 'SSEQ': 'other'}


def justified(r, x, y, roots):
    sym = r.op_symbol
    c = r.cat
    if r.head_is_left is not False:
        return 'head-not-right'
    if sym not in SYMBOL_OF:
        return 'unknown-symbol:' + sym_str(sym)
    ins = (x, y)
    if sym == '>':
        if not (sl(x, '/') and compat(x.right, y)):
            return '>.premise'
        return None if (ceq(c, y) if is_mod(x) else inst_eq(c, x.left, ins)) else '>.result'
    if sym == '<':
        if not (sl(y, '\\') and compat(y.right, x)):
            return '<.premise'
        return None if (ceq(c, x) if is_mod(y) else inst_eq(c, y.left, ins)) else '<.result'
    if sym == '>B':
        if not (sl(x, '/') and sl(y, '/') and compat(x.right, y.left)):
            return '>B.premise'
        return None if (ceq(c, y) if is_mod(x) else inst_eq(c, fn(x.left, '/', y.right), ins)) else '>B.result'
    if sym[:2] == '<B':
        k = int(sym[2:])
        core, args = spine(x, k - 1)
        if core is None or not (sl(core, '\\') and sl(y, '\\') and compat(y.right, core.left)):
            return sym + '.premise'
        exp = rebuild(fn(y.left, '\\', core.right), args)
        return None if (ceq(c, x) if is_mod(y) else inst_eq(c, exp, ins)) else sym + '.result'
    if sym[:3] == '>Bx':
        k = int(sym[3:])
        core, args = spine(y, k - 1)
        if core is None or not (sl(x, '/') and sl(core, '\\') and compat(x.right, core.left)):
            return sym + '.premise'
        exp = rebuild(fn(x.left, '\\', core.right), args)     # crossed composition keeps the slash of the secondary functor
        return None if (ceq(c, y) if is_mod(x) else inst_eq(c, exp, ins)) else sym + '.result'
    if sym == 'SSEQ':
        return None if in_roots(x, roots) and in_roots(y, roots) and ceq(c, y) else 'SSEQ'
    return 'unknown-symbol'


def nargs(c):
    n = 0
    while c.is_functor:
        n += 1
        c = c.left
    return n, c


def expected_unary_label(x):
    """label demanded by the statement, or None where the statement is silent"""
    n, core = nargs(x)
    t = triple(core.feature)
    if t is None:
        return None
    mod = None
    for k, v in t:
        if k == 'mod':
            mod = v
            break
    if mod is None:
        return None
    if mod == 'adn':
        return {0: 'ADNext', 1: 'ADNint'}.get(n)
    if mod == 'adv':
        return {0: 'ADV0', 1: 'ADV1', 2: 'ADV2'}.get(n)
    return None
